//! E0 — fact extractor for the falcon-rust static checks.
//!
//! Used as RUSTC_WORKSPACE_WRAPPER under `cargo +nightly check`.  For the crate named in
//! FALCON_FACTS_CRATE (default `falcon_rust`, lib target only) it runs the compiler up to the end
//! of analysis, then walks the monomorphic call graph from the API roots with `rustc_public`
//! and writes one JSON fact file (FALCON_FACTS_OUT).  Every other crate is compiled by the
//! real rustc unchanged.  Nothing from the analysed crate is executed.
#![feature(rustc_private)]

extern crate rustc_driver;
extern crate rustc_interface;
extern crate rustc_middle;
extern crate rustc_public;
extern crate rustc_public_bridge;
extern crate serde_json;

use std::collections::{BTreeMap, BTreeSet, HashMap, VecDeque};
use std::io::Write;
use std::ops::ControlFlow;

use rustc_public::mir::alloc::{AllocId, GlobalAlloc};
use rustc_public::mir::mono::{Instance, InstanceKind};
use rustc_public::mir::visit::{Location, MirVisitor};
use rustc_public::mir::{
    Body, CastKind, ConstOperand, Operand, PointerCoercion, Rvalue, StatementKind, TerminatorKind,
};
use rustc_public::ty::{
    Allocation, ConstantKind, GenericArgKind, GenericArgs, MirConst, Region, RegionKind, RigidTy,
    Span, Ty, TyConst, TyConstKind, TyKind, VtblEntry,
};
use rustc_public::visitor::{Visitable, Visitor};
use rustc_public::{CrateDef, CrateDefType, ItemKind};
use rustc_public_bridge::IndexedVal;
use serde_json::{json, Value};

fn main() {
    let mut args: Vec<String> = std::env::args().collect();
    // wrapper protocol: argv[1] is the real rustc
    let real_rustc = args.remove(1);
    let want = std::env::var("FALCON_FACTS_CRATE").unwrap_or_else(|_| "falcon_rust".to_string());
    let mut crate_name = String::new();
    let mut is_test = false;
    for (i, a) in args.iter().enumerate() {
        if a == "--crate-name" {
            crate_name = args.get(i + 1).cloned().unwrap_or_default();
        }
        if a == "--test" {
            is_test = true;
        }
    }
    let want_test = std::env::var("FALCON_FACTS_TEST").is_ok();
    if crate_name != want || is_test != want_test {
        let st = std::process::Command::new(&real_rustc).args(&args[1..]).status().expect("spawn rustc");
        std::process::exit(st.code().unwrap_or(1));
    }
    let out = std::env::var("FALCON_FACTS_OUT").expect("FALCON_FACTS_OUT");
    let res = rustc_public::run!(&args, || analyse(&out));
    match res {
        Ok(()) => {}
        Err(e) => {
            eprintln!("falcon-facts: compiler error {:?}", e);
            std::process::exit(1);
        }
    }
}

struct Collect {
    fn_items: Vec<Ty>,
    tys: BTreeMap<usize, Ty>,
    spans: BTreeMap<usize, Span>,
    allocs: BTreeMap<usize, AllocId>,
    alloc_queue: Vec<AllocId>,
}

impl Collect {
    fn add_alloc(&mut self, a: &Allocation) {
        for (_, p) in a.provenance.ptrs.iter() {
            let id = p.0;
            if self.allocs.insert(id.to_index(), id).is_none() {
                self.alloc_queue.push(id);
            }
        }
    }
    fn add_ty(&mut self, ty: Ty) {
        struct V<'a>(&'a mut BTreeMap<usize, Ty>);
        impl<'a> Visitor for V<'a> {
            type Break = ();
            fn visit_ty(&mut self, ty: &Ty) -> ControlFlow<()> {
                if self.0.insert(ty.to_index(), *ty).is_none() {
                    ty.super_visit(self)
                } else {
                    ControlFlow::Continue(())
                }
            }
        }
        let _ = ty.visit(&mut V(&mut self.tys));
    }
}

impl MirVisitor for Collect {
    fn visit_ty(&mut self, ty: &Ty, _l: Location) {
        self.add_ty(*ty);
    }
    fn visit_span(&mut self, span: &Span) {
        self.spans.insert(span.to_index(), *span);
    }
    fn visit_mir_const(&mut self, c: &MirConst, l: Location) {
        if let ConstantKind::Allocated(a) = c.kind() {
            self.add_alloc(a);
        }
        self.add_ty(c.ty());
        if let TyKind::RigidTy(RigidTy::FnDef(..)) = c.ty().kind() {
            self.fn_items.push(c.ty());
        }
        self.super_mir_const(c, l);
    }
    fn visit_ty_const(&mut self, c: &TyConst, _l: Location) {
        let _ = c;
    }
}

fn has_bound_region(ty: Ty) -> bool {
    struct V;
    impl Visitor for V {
        type Break = ();
        fn visit_reg(&mut self, reg: &Region) -> ControlFlow<()> {
            match reg.kind {
                RegionKind::ReBound(..) | RegionKind::RePlaceholder(..) | RegionKind::ReEarlyParam(..) => ControlFlow::Break(()),
                _ => ControlFlow::Continue(()),
            }
        }
    }
    ty.visit(&mut V).is_break()
}

fn pointee(ty: Ty) -> Option<Ty> {
    match ty.kind() {
        TyKind::RigidTy(RigidTy::Ref(_, t, _)) | TyKind::RigidTy(RigidTy::RawPtr(t, _)) => Some(t),
        TyKind::RigidTy(RigidTy::Adt(def, args)) if def.is_box() => args.0.first().and_then(|a| a.ty().copied()),
        _ => None,
    }
}

fn fn_const_instance(op: &Operand, for_ptr: bool) -> Option<Instance> {
    if let Operand::Constant(ConstOperand { const_, .. }) = op {
        if let TyKind::RigidTy(RigidTy::FnDef(def, args)) = const_.ty().kind() {
            return if for_ptr { Instance::resolve_for_fn_ptr(def, &args).ok() } else { Instance::resolve(def, &args).ok() };
        }
        if let TyKind::RigidTy(RigidTy::Closure(def, args)) = const_.ty().kind() {
            return Instance::resolve_closure(def, &args, rustc_public::ty::ClosureKind::FnOnce).ok();
        }
    }
    None
}

fn analyse(out: &str) -> ControlFlow<()> {
    let krate = rustc_public::local_crate();
    let mut roots: Vec<(String, Instance)> = Vec::new();
    let mut items_json = Vec::new();
    let mut generic_skipped = Vec::new();
    for def in krate.fn_defs() {
        let name = def.name();
        let TyKind::RigidTy(RigidTy::FnDef(_, ident)) = def.ty().kind() else { continue };
        let mut variants: Vec<Vec<GenericArgKind>> = vec![vec![]];
        let mut ok = true;
        for a in ident.0.iter() {
            match a {
                GenericArgKind::Lifetime(_) => {
                    for v in variants.iter_mut() {
                        v.push(GenericArgKind::Lifetime(Region { kind: RegionKind::ReErased }));
                    }
                }
                GenericArgKind::Const(c) => match c.kind() {
                    TyConstKind::Param(_) => {
                        let mut nv = Vec::new();
                        for v in variants.iter() {
                            for n in [512u64, 1024u64] {
                                let mut w = v.clone();
                                w.push(GenericArgKind::Const(TyConst::try_from_target_usize(n).unwrap()));
                                nv.push(w);
                            }
                        }
                        variants = nv;
                    }
                    _ => {
                        for v in variants.iter_mut() {
                            v.push(a.clone());
                        }
                    }
                },
                GenericArgKind::Type(_) => {
                    ok = false;
                }
            }
        }
        items_json.push(json!({"name": name, "generic_over_types": !ok, "nargs": ident.0.len(),
            "has_body": def.has_body(), "span": def.span().to_index()}));
        if !ok {
            generic_skipped.push(name.clone());
            continue;
        }
        if !def.has_body() {
            continue;
        }
        for v in variants {
            match Instance::resolve(def, &GenericArgs(v)) {
                Ok(i) => roots.push((name.clone(), i)),
                Err(e) => eprintln!("falcon-facts: cannot resolve {}: {:?}", name, e),
            }
        }
    }

    let mut statics_json = Vec::new();
    for s in krate.statics() {
        statics_json.push(json!({"name": s.name(), "ty": format!("{}", s.ty())}));
    }
    let mut consts_json = Vec::new();
    for it in rustc_public::all_local_items() {
        match it.kind() {
            ItemKind::Const | ItemKind::Static => consts_json.push(json!({"name": it.name(), "kind": format!("{:?}", it.kind()), "ty": format!("{}", it.ty())})),
            _ => {}
        }
    }

    let mut ids: HashMap<Instance, usize> = HashMap::new();
    let mut insts: Vec<Instance> = Vec::new();
    let mut queue: VecDeque<usize> = VecDeque::new();
    let mut intern = |i: Instance, ids: &mut HashMap<Instance, usize>, insts: &mut Vec<Instance>, queue: &mut VecDeque<usize>| -> usize {
        if let Some(&k) = ids.get(&i) {
            return k;
        }
        let k = insts.len();
        ids.insert(i, k);
        insts.push(i);
        queue.push_back(k);
        k
    };
    let mut roots_json = Vec::new();
    for (n, i) in roots.iter() {
        let k = intern(*i, &mut ids, &mut insts, &mut queue);
        roots_json.push(json!({"def": n, "inst": k}));
    }

    let mut col = Collect { fn_items: Vec::new(), tys: BTreeMap::new(), spans: BTreeMap::new(), allocs: BTreeMap::new(), alloc_queue: Vec::new() };
    let local_name = krate.name.clone();
    let dump_all = std::env::var("FALCON_FACTS_BODIES").map(|v| v == "all").unwrap_or(true);
    let mut inst_json: Vec<Value> = Vec::new();
    let mut alloc_fn_refs: Vec<(usize, usize)> = Vec::new();

    while let Some(k) = queue.pop_front() {
        let inst = insts[k];
        let def_id = inst.def.def_id();
        let crate_name = inst.def.krate().name;
        let is_local = crate_name == local_name;
        let mut edges: Vec<Value> = Vec::new();
        let mut body_json = Value::Null;
        let mut nblocks = 0usize;
        let body: Option<Body> = if matches!(inst.kind, InstanceKind::Virtual { .. }) { None } else { inst.body() };
        if let Some(body) = body.as_ref() {
            nblocks = body.blocks.len();
            col.visit_body(body);
            for (bbi, bb) in body.blocks.iter().enumerate() {
                for (si, st) in bb.statements.iter().enumerate() {
                    if let StatementKind::Assign(_, rv) = &st.kind {
                        match rv {
                            Rvalue::Cast(CastKind::PointerCoercion(PointerCoercion::ReifyFnPointer(_)), op, _) => {
                                if let Some(t) = fn_const_instance(op, true) {
                                    let tk = intern(t, &mut ids, &mut insts, &mut queue);
                                    edges.push(json!({"bb": bbi, "st": si, "k": "reify", "to": tk}));
                                }
                            }
                            Rvalue::Cast(CastKind::PointerCoercion(PointerCoercion::ClosureFnPointer(_)), op, _) => {
                                if let Ok(t) = op.ty(body.locals()) {
                                    if let TyKind::RigidTy(RigidTy::Closure(def, args)) = t.kind() {
                                        if let Ok(t) = Instance::resolve_closure(def, &args, rustc_public::ty::ClosureKind::FnOnce) {
                                            let tk = intern(t, &mut ids, &mut insts, &mut queue);
                                            edges.push(json!({"bb": bbi, "st": si, "k": "reify", "to": tk}));
                                        }
                                    }
                                }
                            }
                            Rvalue::Cast(CastKind::PointerCoercion(PointerCoercion::Unsize), op, target) => {
                                let src = op.ty(body.locals()).ok();
                                if let (Some(sp), Some(tp)) = (src.and_then(pointee), pointee(*target)) {
                                    if let Some(principal) = tp.kind().trait_principal() {
                                        if !principal.bound_vars.is_empty() || has_bound_region(sp) {
                                            edges.push(json!({"bb": bbi, "st": si, "k": "unsize_opaque", "from_ty": format!("{}", sp), "to_ty": format!("{}", tp)}));
                                            continue;
                                        }
                                        let tr = principal.with_self_ty(sp).skip_binder();
                                        let mut methods = Vec::new();
                                        for (idx, e) in tr.vtable_entries().into_iter().enumerate() {
                                            if let VtblEntry::Method(m) = e {
                                                let tk = intern(m, &mut ids, &mut insts, &mut queue);
                                                methods.push(json!([idx, tk]));
                                            }
                                        }
                                        let dk = intern(Instance::resolve_drop_in_place(sp), &mut ids, &mut insts, &mut queue);
                                        edges.push(json!({"bb": bbi, "st": si, "k": "unsize", "from_ty": format!("{}", sp), "to_ty": format!("{}", tp), "methods": methods, "drop": dk}));
                                    }
                                }
                            }
                            Rvalue::ThreadLocalRef(item) => {
                                edges.push(json!({"bb": bbi, "st": si, "k": "tls", "item": item.name()}));
                            }
                            _ => {}
                        }
                    }
                }
                match &bb.terminator.kind {
                    TerminatorKind::Call { func, .. } => {
                        if let Some(t) = fn_const_instance(func, false) {
                            let tk = intern(t, &mut ids, &mut insts, &mut queue);
                            edges.push(json!({"bb": bbi, "k": "call", "to": tk}));
                        } else {
                            let fty = func.ty(body.locals()).map(|t| format!("{}", t)).unwrap_or_default();
                            edges.push(json!({"bb": bbi, "k": "indirect", "fn_ty": fty}));
                        }
                    }
                    TerminatorKind::Drop { place, .. } => {
                        if let Ok(t) = place.ty(body.locals()) {
                            let d = Instance::resolve_drop_in_place(t);
                            if !d.is_empty_shim() {
                                let tk = intern(d, &mut ids, &mut insts, &mut queue);
                                edges.push(json!({"bb": bbi, "k": "drop", "to": tk}));
                            }
                        }
                    }
                    TerminatorKind::InlineAsm { .. } => {
                        edges.push(json!({"bb": bbi, "k": "asm"}));
                    }
                    _ => {}
                }
            }
            // function items used as values (e.g. `.map(Felt::new)`): resolve them like calls
            let items: Vec<Ty> = std::mem::take(&mut col.fn_items);
            let mut seen_items: BTreeSet<usize> = BTreeSet::new();
            for t in items {
                if !seen_items.insert(t.to_index()) {
                    continue;
                }
                if let TyKind::RigidTy(RigidTy::FnDef(def, args)) = t.kind() {
                    if let Ok(i) = Instance::resolve(def, &args) {
                        let tk = intern(i, &mut ids, &mut insts, &mut queue);
                        edges.push(json!({"k": "fnitem", "to": tk, "ty": t.to_index()}));
                    }
                }
            }
            // follow allocations reachable from constants (functions, vtables, statics)
            while let Some(a) = col.alloc_queue.pop() {
                match GlobalAlloc::from(a) {
                    GlobalAlloc::Memory(m) => col.add_alloc(&m),
                    GlobalAlloc::Function(f) => {
                        let tk = intern(f, &mut ids, &mut insts, &mut queue);
                        alloc_fn_refs.push((a.to_index(), tk));
                        edges.push(json!({"k": "fnptr_const", "to": tk}));
                    }
                    GlobalAlloc::Static(s) => {
                        edges.push(json!({"k": "static", "name": s.name(), "alloc": a.to_index()}));
                        if let Ok(m) = s.eval_initializer() {
                            col.add_alloc(&m);
                        }
                    }
                    GlobalAlloc::VTable(ty, tr) => {
                        if let Some(tr) = tr {
                            if !tr.bound_vars.is_empty() || has_bound_region(ty) {
                                continue;
                            }
                            let t = tr.with_self_ty(ty).skip_binder();
                            let mut methods = Vec::new();
                            for (idx, e) in t.vtable_entries().into_iter().enumerate() {
                                if let VtblEntry::Method(m) = e {
                                    let tk = intern(m, &mut ids, &mut insts, &mut queue);
                                    methods.push(json!([idx, tk]));
                                }
                            }
                            edges.push(json!({"k": "vtable_const", "from_ty": format!("{}", ty), "methods": methods}));
                        }
                    }
                    GlobalAlloc::TypeId { .. } => {}
                }
            }
            if is_local || dump_all {
                body_json = serde_json::to_value(body).unwrap_or(Value::Null);
            }
        }
        let (kind, vidx) = match inst.kind {
            InstanceKind::Item => ("item", None),
            InstanceKind::Intrinsic => ("intrinsic", None),
            InstanceKind::Virtual { idx } => ("virtual", Some(idx)),
            InstanceKind::Shim => ("shim", None),
        };
        let args_json: Vec<Value> = inst.args().0.iter().map(|a| match a {
            GenericArgKind::Lifetime(_) => json!("'_"),
            GenericArgKind::Type(t) => { col.add_ty(*t); json!({"ty": t.to_index()}) }
            GenericArgKind::Const(c) => json!({"const": format!("{:?}", c.eval_target_usize().ok())}),
        }).collect();
        let fn_ty = inst.ty();
        col.add_ty(fn_ty);
        let fn_ty_idx = fn_ty.to_index();
        inst_json.push(json!({
            "id": k, "name": inst.name(), "mangled": inst.mangled_name(), "kind": kind, "vidx": vidx,
            "crate": crate_name, "local": is_local, "has_body": body.is_some(), "nblocks": nblocks,
            "foreign": inst.is_foreign_item(), "intrinsic": inst.intrinsic_name(),
            "def_name": def_id.name(), "def_span": def_id.span().to_index(),
            "args": args_json, "fn_ty": fn_ty_idx,
            "edges": edges, "body": body_json,
        }));
        { let sp = def_id.span(); col.spans.insert(sp.to_index(), sp); }
    }

    // side tables
    let mut tys_json = serde_json::Map::new();
    // types may add more types while we describe them (ADT fields)
    let mut done: BTreeSet<usize> = BTreeSet::new();
    loop {
        let todo: Vec<Ty> = col.tys.iter().filter(|(i, _)| !done.contains(*i)).map(|(_, t)| *t).collect();
        if todo.is_empty() {
            break;
        }
        for t in todo {
            done.insert(t.to_index());
            let kind = t.kind();
            let mut entry = serde_json::Map::new();
            entry.insert("s".into(), json!(format!("{}", t)));
            entry.insert("k".into(), serde_json::to_value(&kind).unwrap_or(Value::Null));
            if !has_bound_region(t) && let Ok(l) = t.layout() {
                let sh = l.shape();
                entry.insert("layout".into(), serde_json::to_value(&sh).unwrap_or(Value::Null));
            }
            if let TyKind::RigidTy(RigidTy::Adt(def, args)) = &kind {
                let mut vs = Vec::new();
                for (vi, v) in def.variants().into_iter().enumerate() {
                    let mut fs = Vec::new();
                    for f in v.fields() {
                        let ft = f.ty_with_args(args);
                        col.add_ty(ft);
                        fs.push(json!({"name": f.name, "ty": ft.to_index()}));
                    }
                    vs.push(json!({"name": v.name(), "fields": fs, "discr": if def.kind().is_enum() { format!("{}", def.discriminant_for_variant(rustc_public::ty::VariantIdx::to_val(vi)).val) } else { String::new() }}));
                }
                entry.insert("adt".into(), json!({"name": def.name(), "kind": format!("{}", def.kind()), "variants": vs,
                    "crate": def.krate().name}));
            }
            if let TyKind::RigidTy(RigidTy::Closure(def, _)) = &kind {
                entry.insert("closure".into(), json!({"name": def.name(), "span": def.span().to_index()}));
                { let sp = def.span(); col.spans.insert(sp.to_index(), sp); }
            }
            tys_json.insert(t.to_index().to_string(), Value::Object(entry));
        }
    }
    let mut spans_json = serde_json::Map::new();
    for (_, s) in col.spans.iter() {
        let li = s.get_lines();
        spans_json.insert(s.to_index().to_string(), json!([s.get_filename(), li.start_line, li.start_col, li.end_line, li.end_col]));
    }
    let mut allocs_json = serde_json::Map::new();
    for (idx, a) in col.allocs.iter() {
        let v = match GlobalAlloc::from(*a) {
            GlobalAlloc::Memory(m) => {
                let hex: String = m.bytes.iter().map(|b| match b { Some(x) => format!("{:02x}", x), None => "__".to_string() }).collect();
                let ptrs: Vec<Value> = m.provenance.ptrs.iter().map(|(o, p)| json!([o, p.0.to_index()])).collect();
                json!({"k": "mem", "hex": hex, "ptrs": ptrs, "mutable": format!("{:?}", m.mutability)})
            }
            GlobalAlloc::Function(f) => json!({"k": "fn", "inst": ids.get(&f)}),
            GlobalAlloc::Static(s) => json!({"k": "static", "name": s.name()}),
            GlobalAlloc::VTable(ty, _) => json!({"k": "vtable", "ty": format!("{}", ty)}),
            GlobalAlloc::TypeId { ty } => json!({"k": "typeid", "ty": format!("{}", ty)}),
        };
        allocs_json.insert(idx.to_string(), v);
    }
    let _ = alloc_fn_refs;

    let top = json!({
        "rustc": rustc_version(),
        "crate": local_name,
        "roots": roots_json,
        "items": items_json,
        "generic_skipped": generic_skipped,
        "statics": statics_json,
        "consts": consts_json,
        "instances": inst_json,
        "types": Value::Object(tys_json),
        "spans": Value::Object(spans_json),
        "allocs": Value::Object(allocs_json),
        "complete": true,
    });
    let tmp = format!("{}.tmp", out);
    let mut f = std::io::BufWriter::new(std::fs::File::create(&tmp).expect("create facts"));
    serde_json::to_writer(&mut f, &top).expect("write facts");
    f.flush().unwrap();
    drop(f);
    std::fs::rename(&tmp, out).expect("rename facts");
    eprintln!("falcon-facts: {} instances, {} types, {} allocs -> {}", insts.len(), done.len(), col.allocs.len(), out);
    ControlFlow::Continue(())
}

fn rustc_version() -> String {
    option_env!("FALCON_FACTS_RUSTC").unwrap_or("nightly").to_string()
}
