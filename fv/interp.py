"""E2 — the MIR interpreter proper (places, rvalues, terminators, fixpoint engine, calls)."""
import heapq
import math
import struct

from . import absint as _absint
from .absint import (tl, EMPTY, p_const, p_add, p_mul, RQ, I, Fl, Ag, En, Sq, Pt, Top, Md, UNIT, BOT, Bot, St, Ctx, Frame, Unsupported, Diverge, PathAbort,
                     INF, USIZE_MAX, ISIZE_MAX, array_len, join_states, same_state, gc_state, map_value, iter_ints, rename_vid)
from .facts import CheckerError, const_of, decode_scalar
from .mir import Body, kind_of, show

CMP_NEG = {"Lt": "Ge", "Le": "Gt", "Gt": "Le", "Ge": "Lt", "Eq": "Ne", "Ne": "Eq"}
CMP_SWAP = {"Lt": "Gt", "Le": "Ge", "Gt": "Lt", "Ge": "Le", "Eq": "Eq", "Ne": "Ne"}
PANIC_FNS = ("core::panicking::", "std::rt::begin_panic", "core::result::unwrap_failed", "core::option::unwrap_failed",
             "core::option::expect_failed", "core::slice::index::slice_", "core::str::slice_error_fail",
             "alloc::raw_vec::capacity_overflow", "alloc::alloc::handle_alloc_error", "std::process::abort",
             "core::slice::<impl [T]>::copy_from_slice::len_mismatch_fail", "alloc::raw_vec::handle_error")


def is_panic_fn(name):
    n = name.replace("std::panicking", "core::panicking")
    return any(p in n for p in PANIC_FNS) or n.startswith("std::rt::panic") or "panic_fmt" in n or "::panic_" in n


class Interp:
    def __init__(self, ctx):
        self.ctx = ctx
        self.prog = ctx.prog
        self._callable = None

    # ======================================================================== types of places
    def deref_ty(self, ty):
        t = self.prog.ty(ty)
        if t.tag == "Ref":
            return t.arg[1]
        if t.tag == "RawPtr":
            return t.arg[0]
        if t.tag == "Adt" and t.adt and t.adt["name"].endswith("boxed::Box"):
            for a in t.arg[1]:
                if isinstance(a, dict) and "Type" in a:
                    return a["Type"]
        raise Unsupported(f"deref of {t.s}")

    def elem_ty(self, ty):
        t = self.prog.ty(ty)
        if t.tag == "Array":
            return t.arg[0]
        if t.tag == "Slice":
            return t.arg
        if t.tag == "Str":
            return self.ctx.ty_by_str("u8")
        raise Unsupported(f"element type of {t.s}")

    def place_ty(self, fr, place):
        ty = fr.body.locals[place["local"]]["ty"]
        for pe in place["projection"]:
            k, v = kind_of(pe)
            if k == "Deref":
                ty = self.deref_ty(ty)
            elif k == "Field":
                ty = v[1]
            elif k in ("Index", "ConstantIndex"):
                ty = self.elem_ty(ty)
            elif k in ("Downcast", "Subslice"):
                pass
            elif k == "OpaqueCast":
                ty = v
            else:
                raise Unsupported(f"projection {k}")
        return ty

    # ======================================================================== memory
    def resolve(self, st, fr, place):
        """-> (cell key, projection tuple) with all Derefs followed"""
        key = (fr.id, place["local"])
        proj = []
        ty = fr.body.locals[place["local"]]["ty"]
        for pe in place["projection"]:
            k, v = kind_of(pe)
            if k == "Deref":
                p = self.load(st, key, proj, ty)
                ty = self.deref_ty(ty)
                if type(p) is Md and p.kind == "box":
                    p = p.d["ptr"]
                if type(p) is not Pt or p.key is None:
                    raise Unsupported("deref of unknown pointer")
                key, proj = p.key, list(p.proj)
            elif k == "Field":
                proj.append(("f", v[0], v[1]))
                ty = v[1]
            elif k == "Index":
                iv = st.store[(fr.id, v)]
                ety = self.elem_ty(ty)
                proj.append(("i", iv, ety))
                ty = ety
            elif k == "ConstantIndex":
                ety = self.elem_ty(ty)
                proj.append(("ci", v["offset"], v["from_end"], ety))
                ty = ety
            elif k == "Downcast":
                proj.append(("d", v))
            elif k == "Subslice":
                proj.append(("sub", v["from"], v["to"], v["from_end"]))
            elif k == "OpaqueCast":
                ty = v
            else:
                raise Unsupported(f"projection {k}")
        return key, tuple(proj)

    def cell(self, st, key):
        v = st.store.get(key)
        if v is None:
            if key[0] == "alloc":
                v = self.materialise_alloc(st, key)
                st.store[key] = v
            else:
                raise Unsupported(f"read of uninitialised cell {key}")
        return v

    def load(self, st, key, proj, base_ty=None):
        v = self.cell(st, key)
        for pe in proj:
            v = self.project(st, v, pe)
        return v

    def project(self, st, v, pe):
        k = pe[0]
        tv = type(v)
        if k == "f":
            if tv is Ag:
                if pe[1] >= len(v.f):
                    raise Unsupported("field index out of aggregate")
                return v.f[pe[1]]
            if tv is Top:
                return self.ctx.top_value(st, pe[2])
            if tv is Md and v.kind == "box" and pe[1] == 0:
                return v
            raise Unsupported(f"field of {tv.__name__} {getattr(v, 'kind', '')}")
        if k == "d":
            if tv is En:
                if pe[1] not in v.vs:
                    raise Diverge()
                return Ag(v.vs[pe[1]])
            if tv is Top:
                t = self.prog.ty(v.ty)
                if t.adt and t.adt["kind"] == "enum":
                    return Ag(self.ctx.top_value(st, f["ty"]) for f in t.adt["variants"][pe[1]]["fields"])
            raise Unsupported(f"downcast of {tv.__name__}")
        if k == "i":
            if tv is Sq:
                return self.seq_read(st, v, pe[1])
            if tv is Top:
                return self.ctx.top_value(st, pe[2])
            raise Unsupported(f"index of {tv.__name__}")
        if k == "ci":
            if tv is Sq:
                if pe[2]:
                    return self.seq_read(st, v, None)
                return self.seq_read(st, v, self.ctx.const_int(st, pe[1], self.ctx.usize_ty()))
            if tv is Top:
                return self.ctx.top_value(st, pe[3])
        if k == "sub":
            if tv is Sq:
                return self.seq_slice(st, v, pe[1], pe[2], pe[3])
        raise Unsupported(f"projection {k} of {tv.__name__}")

    def seq_read(self, st, s, idx):
        """element abstraction at (abstract) index idx (None = unknown)"""
        c = st.const(idx) if idx is not None else None
        if s.data is not None:
            aid, off, ety, cnt = s.data
            if c is not None and 0 <= c < cnt:
                return self.decode_at(st, ety, aid, off + c * self.prog.ty(ety).size_bytes())
            return self.copy_fresh(st, s.elem)
        if s.head:
            if c is not None and c in s.head:
                return s.head[c]
            if c is not None:
                return self.copy_fresh(st, s.elem)
            v = s.elem
            for k, h in s.head.items():
                # can the index be k ?
                if idx is None or (st.lo(idx) <= k <= st.hi(idx)):
                    v = self.join_vals(st, v, h)
            return self.copy_fresh(st, v)
        return self.copy_fresh(st, s.elem)

    def copy_fresh(self, st, v):
        """a new runtime value drawn from the same abstraction (fresh vids, same intervals)"""
        if v is BOT:
            raise Diverge()
        def f(i):
            n = self.ctx.mk_int(st, *st.itv[i.vid], i.ty, taint=tl(st, i.vid))
            return n
        return map_value(v, f)

    def join_vals(self, st, a, b):
        """hull of two values living in the same state (intervals only)"""
        ta, tb = type(a), type(b)
        if ta is Bot:
            return b
        if tb is Bot:
            return a
        if ta is I and tb is I:
            if a.vid == b.vid:
                return a
            la, ha = st.itv[a.vid]
            lb, hb = st.itv[b.vid]
            return self.ctx.mk_int(st, min(la, lb), max(ha, hb), a.ty, taint=tl(st, a.vid, b.vid))
        if ta is Top:
            return a
        if tb is Top:
            return b
        if ta is not tb:
            raise Unsupported(f"join_vals shapes {a}/{b}")
        if ta is Fl:
            return Fl(min(a.lo, b.lo), max(a.hi, b.hi), a.nan or b.nan, a.tag if a.tag == b.tag else None)
        if ta is Ag:
            return Ag(self.join_vals(st, x, y) for x, y in zip(a.f, b.f))
        if ta is En:
            vs = {}
            for k in set(a.vs) | set(b.vs):
                if k in a.vs and k in b.vs:
                    vs[k] = tuple(self.join_vals(st, x, y) for x, y in zip(a.vs[k], b.vs[k]))
                else:
                    vs[k] = a.vs.get(k, b.vs.get(k))
            return En(vs)
        if ta is Sq:
            return Sq(self.join_vals(st, self._flat_elem(st, a), self._flat_elem(st, b)), self.join_vals(st, a.len, b.len), None, a.data if a.data == b.data else None)
        if ta is Pt:
            if a.key == b.key and a.proj == b.proj:
                return a
            return Pt(None)
        if ta is Md:
            if a.kind == b.kind and a.d.keys() == b.d.keys():
                return Md(a.kind, {k: (self.join_vals(st, a.d[k], b.d[k]) if isinstance(a.d[k], (I, Fl, Ag, En, Sq, Pt, Top, Md)) else a.d[k]) for k in a.d})
        raise Unsupported(f"join_vals {ta.__name__}")

    def _flat_elem(self, st, s):
        v = s.elem
        if s.head:
            for h in s.head.values():
                v = self.join_vals(st, v, h)
        return v

    def seq_slice(self, st, s, frm, to, from_end):
        """slice pattern `[a, b, rest @ .., y, z]`: MIR Subslice { from, to, from_end } — with from_end the elements
        from .. len - to, otherwise from .. to (arrays). The match has already checked the minimum length."""
        usz = self.ctx.usize_ty()
        if from_end:
            cut = self.ctx.const_int(st, frm + to, usz)
            lo_len = st.lo(s.len)
            if lo_len < frm + to:
                # reached only on the arm whose length test passed; intervals may not show it (e.g. after a join)
                try:
                    self.assume_cmp(st, "Ge", s.len.vid, cut.vid)
                except Diverge:
                    raise
            newlen = self.binop(st, "Sub", s.len, cut, usz, False)
            hi_keep = (st.const(s.len) - to) if st.const(s.len) is not None else None
        else:
            newlen = self.ctx.const_int(st, to - frm, usz)
            hi_keep = to
        head = None
        if s.head:
            head = {k - frm: v for k, v in s.head.items() if k >= frm and (hi_keep is None and to == 0 or (hi_keep is not None and k < hi_keep))}
        data = None
        if s.data is not None and st.const(newlen) is not None:
            aid, off, ety, cnt = s.data
            data = (aid, off + frm * self.prog.ty(ety).size_bytes(), ety, st.const(newlen))
        return Sq(s.elem, newlen, head or None, data)

    def store_at(self, st, key, proj, val):
        if not proj:
            st.store[key] = val
            return
        old = self.cell(st, key)
        st.store[key] = self.update(st, old, proj, val)

    def update(self, st, v, proj, val):
        if not proj:
            return val
        pe = proj[0]
        k = pe[0]
        tv = type(v)
        if tv is Top:
            v = self.ctx.top_value(st, v.ty)
            tv = type(v)
            if tv is Top:
                raise Unsupported(f"write into opaque {self.prog.ty(v.ty).s}")
        if k == "f":
            if tv is Ag:
                f = list(v.f)
                f[pe[1]] = self.update(st, f[pe[1]], proj[1:], val)
                return Ag(f)
            raise Unsupported(f"field write into {tv.__name__}")
        if k == "d":
            if tv is En:
                if pe[1] not in v.vs:
                    raise Diverge()
                inner = self.update(st, Ag(v.vs[pe[1]]), proj[1:], val)
                vs = dict(v.vs)
                vs[pe[1]] = inner.f
                if len(vs) > 1:
                    # writing through a downcast asserts this variant is the live one
                    vs = {pe[1]: inner.f}
                return En(vs)
            raise Unsupported("downcast write")
        if k in ("i", "ci"):
            if tv is Sq:
                idx = pe[1] if k == "i" else (None if pe[2] else self.ctx.const_int(st, pe[1], self.ctx.usize_ty()))
                c = st.const(idx) if idx is not None else None
                if v.head is not None and c is not None and c in v.head:
                    h = dict(v.head)
                    h[c] = self.update(st, h[c], proj[1:], val)
                    return Sq(v.elem, v.len, h, None)
                cur = v.elem
                new = self.update(st, cur, proj[1:], val)
                ln = st.const(v.len)
                if c is not None and ln == 1 and not v.head:
                    return Sq(new, v.len, None, None)      # single element: strong update
                h = v.head
                if h and c is None:
                    # unknown index may hit a distinguished head element: fold heads into weak update
                    h = {kk: self.join_vals(st, hv, new) for kk, hv in h.items() if idx is None or st.lo(idx) <= kk <= st.hi(idx)} | {kk: hv for kk, hv in h.items() if not (idx is None or st.lo(idx) <= kk <= st.hi(idx))}
                return Sq(self.join_vals(st, cur, new), v.len, h, None)
            raise Unsupported(f"index write into {tv.__name__}")
        raise Unsupported(f"write projection {k}")

    # ======================================================================== constants
    def materialise_alloc(self, st, key):
        # key = ("alloc", aid, tyid)
        _, aid, ty = key
        return self.decode_at(st, ty, aid, 0)

    def decode_at(self, st, ty, aid, off, meta=None):
        a = self.prog.allocs.get(aid)
        if a is None or a["k"] != "mem":
            raise Unsupported(f"constant allocation {aid} is {a and a['k']}")
        data = bytes.fromhex(a["hex"].replace("__", "00"))
        return self.decode(st, ty, data, a["ptrs"], off, meta, aid=aid)

    def decode(self, st, ty, data, ptrs, off=0, meta=None, aid=None):
        t = self.prog.ty(ty)
        tag = t.tag
        if tag in ("Int", "Uint", "Bool", "Char"):
            n = t.size_bytes() if tag != "Bool" else 1
            v = decode_scalar(self.prog, ty, data[off:off + n])
            return self.ctx.const_int(st, int(v), ty)
        if tag == "Float":
            n = 8 if t.arg == "F64" else 4
            v = decode_scalar(self.prog, ty, data[off:off + n])
            return Fl(v, v, v != v)
        if tag in ("Ref", "RawPtr"):
            tgt = [p for p in ptrs if p[0] == off]
            if not tgt:
                return Pt(None)
            aid = tgt[0][1]
            inner = int.from_bytes(data[off:off + 8], "little")
            pointee = self.deref_ty(ty)
            pt = self.prog.ty(pointee)
            if pt.tag in ("Slice", "Str"):
                ln = int.from_bytes(data[off + 8:off + 16], "little")
                key = ("alloc", aid, pointee, inner, ln)
                if key not in st.store:
                    ety = self.elem_ty(pointee)
                    st.store[key] = self.const_seq(st, ety, aid, inner, ln)
                return Pt(key)
            if pt.tag == "Dynamic":
                return Pt(None)
            key = ("alloc", aid, pointee) if inner == 0 else ("alloc", aid, pointee, inner)
            if key not in st.store:
                st.store[key] = self.decode_at(st, pointee, aid, inner)
            return Pt(key)
        if tag == "Array":
            n = array_len(t)
            ety = t.arg[0]
            return self.const_seq_bytes(st, ety, data, ptrs, off, n, aid=aid)
        if tag == "Tuple":
            offs = self.field_offsets(t)
            return Ag(self.decode(st, ft, data, ptrs, off + o) for ft, o in zip(t.arg, offs))
        if tag == "Adt" and t.adt:
            m = self.ctx.models.type_model(t)
            if m is not None:
                raise Unsupported(f"constant of modelled type {t.s}")
            if t.adt["kind"] == "struct":
                offs = self.field_offsets(t)
                fs = t.adt["variants"][0]["fields"]
                return Ag(self.decode(st, f["ty"], data, ptrs, off + o) for f, o in zip(fs, offs))
            if t.adt["kind"] == "enum":
                return self.decode_enum(st, t, data, ptrs, off)
        if tag in ("FnDef", "Closure", "Never"):
            return UNIT
        raise Unsupported(f"constant of type {t.s}")

    def field_offsets(self, t):
        lay = t.layout
        if not lay:
            raise Unsupported(f"no layout for {t.s}")
        f = lay["fields"]
        if isinstance(f, dict) and "Arbitrary" in f:
            return [o["num_bits"] // 8 for o in f["Arbitrary"]["offsets"]]
        raise Unsupported(f"field layout of {t.s}")

    def decode_enum(self, st, t, data, ptrs, off):
        lay = t.layout
        var = lay["variants"] if lay else None
        vs = t.adt["variants"]
        if isinstance(var, dict) and "Single" in var:
            i = var["Single"]["index"]
            if vs[i]["fields"]:
                raise Unsupported("single-variant enum constant with fields")
            return En({i: ()})
        if isinstance(var, dict) and "Multiple" in var:
            m = var["Multiple"]
            if m.get("tag_encoding") == "Direct" and all(not v["fields"] for v in vs):
                size = t.size_bytes()
                tagv = int.from_bytes(data[off:off + size], "little")
                for i, v in enumerate(vs):
                    if v["discr"] != "" and int(v["discr"]) == tagv:
                        return En({i: ()})
            enc = m.get("tag_encoding")
            if isinstance(enc, dict) and "Niche" in enc:
                # niche-encoded enum (e.g. Option<bool>): the tag field holds niche_start + (variant - first niche variant)
                # for the data-less niche variants, any other value is the untagged variant's own data
                ni = enc["Niche"]
                tagv_ = m.get("tag", {}).get("Initialized", {}).get("value", {})
                tag = tagv_.get("Int")
                if tag is None and "Pointer" in tagv_:
                    tag = {"length": "I64"}        # Option<&T> / Option<Box<T>>: the niche is the null pointer
                offs = lay["fields"]["Arbitrary"]["offsets"] if isinstance(lay.get("fields"), dict) and "Arbitrary" in lay["fields"] else None
                if tag and offs:
                    tsize = {"I8": 1, "I16": 2, "I32": 4, "I64": 8, "I128": 16}[tag["length"]]
                    toff = off + offs[m.get("tag_field", 0)]["num_bits"] // 8
                    tv = int.from_bytes(data[toff:toff + tsize], "little")
                    lo_v, hi_v = ni["niche_variants"]["start"], ni["niche_variants"]["end"]
                    rel = (tv - ni["niche_start"]) % (1 << (8 * tsize))
                    has_ptr = any(p_[0] == toff for p_ in (ptrs or ()))      # a pointer with provenance is never the null niche
                    if rel <= hi_v - lo_v and not has_ptr:
                        vi = lo_v + rel
                        if not vs[vi]["fields"]:
                            return En({vi: ()})
                    else:
                        ui = ni["untagged_variant"]
                        fo = m["variants"][ui]["offsets"]
                        fields = tuple(self.decode(st, f["ty"], data, ptrs, off + o["num_bits"] // 8) for f, o in zip(vs[ui]["fields"], fo))
                        return En({ui: fields})
        raise Unsupported(f"enum constant {t.s}")

    def const_seq(self, st, ety, aid, off, n):
        a = self.prog.allocs.get(aid)
        if a is None or a["k"] != "mem":
            raise Unsupported("const seq alloc")
        data = bytes.fromhex(a["hex"].replace("__", "00"))
        return self.const_seq_bytes(st, ety, data, a["ptrs"], off, n, aid=aid)

    def const_seq_bytes(self, st, ety, data, ptrs, off, n, aid=None):
        usz = self.ctx.usize_ty()
        et = self.prog.ty(ety)
        sz = et.size_bytes()
        ln = self.ctx.const_int(st, n, usz)
        if n == 0:
            return Sq(self.ctx.top_value(st, ety), ln)
        if n <= 64:
            vals = [self.decode(st, ety, data, ptrs, off + i * sz) for i in range(n)]
            elem = vals[0]
            for v in vals[1:]:
                elem = self.join_vals(st, elem, v)
            return Sq(elem, ln, {i: v for i, v in enumerate(vals)}, None)
        # large table: element hull computed once, entries decoded on demand (needs the alloc id)
        cache = self.ctx.memo.setdefault("tablehull", {})
        ck = (aid, off, ety, n, hash(data[off:off + n * sz]))
        hull = cache.get(ck)
        if hull is None:
            tmp = St()
            vals = [self.decode(tmp, ety, data, ptrs, off + i * sz) for i in range(n)]
            e = vals[0]
            for v in vals[1:]:
                e = self.join_vals(tmp, e, v)
            hull = (e, tmp)
            cache[ck] = hull
        e, tmp = hull
        elem = map_value(e, lambda i: self.ctx.mk_int(st, *tmp.itv[i.vid], i.ty))
        return Sq(elem, ln, None, (aid, off, ety, n) if aid is not None else None)

    def const_operand(self, st, op):
        c = op["Constant"]["const_"]
        kind = c["kind"]
        ty = c["ty"]
        if kind == "ZeroSized":
            t = self.prog.ty(ty)
            if t.tag == "Adt" and t.adt and t.adt["kind"] == "enum" and len(t.adt["variants"]) == 1:
                return En({0: ()})
            if t.tag == "Adt":
                m = self.ctx.models.type_model(t)
                if m is not None:
                    return m(self.ctx, st, t, False)
            return UNIT
        if isinstance(kind, dict) and "Allocated" in kind:
            a = kind["Allocated"]
            data = bytes(b or 0 for b in a["bytes"])
            ptrs = [(o, p) for o, p in a["provenance"]["ptrs"]]
            return self.decode(st, ty, data, ptrs, 0)
        raise Unsupported(f"constant kind {kind}")

    # ======================================================================== operands / rvalues
    def operand(self, st, fr, op):
        k, v = kind_of(op)
        if k in ("Copy", "Move"):
            key, proj = self.resolve(st, fr, v)
            return self.load(st, key, proj)
        if k == "Constant":
            try:
                return self.const_operand(st, op)
            except Unsupported:
                return self.ctx.top_value(st, op["Constant"]["const_"]["ty"])
        if k == "RuntimeChecks":
            return self.ctx.mk_int(st, 0, 1, self.ctx.bool_ty())
        raise Unsupported(f"operand {k}")

    def mkbool(self, st, val=None, prov=None):
        if val is None:
            b = self.ctx.mk_int(st, 0, 1, self.ctx.bool_ty())
        else:
            b = self.ctx.const_int(st, int(bool(val)), self.ctx.bool_ty())
        if prov is not None:
            st.prov[b.vid] = prov
        return b

    def rvalue(self, st, fr, rv, dest_ty, loc):
        k, v = kind_of(rv)
        if k == "Use":
            return self.operand(st, fr, v[0])
        if k == "BinaryOp":
            a = self.operand(st, fr, v[1])
            b = self.operand(st, fr, v[2])
            return self.binop(st, v[0], a, b, dest_ty, checked=False)
        if k == "CheckedBinaryOp":
            a = self.operand(st, fr, v[1])
            b = self.operand(st, fr, v[2])
            return self.binop(st, v[0], a, b, dest_ty, checked=True)
        if k == "UnaryOp":
            a = self.operand(st, fr, v[1])
            return self.unop(st, v[0], a, dest_ty)
        if k == "Cast":
            a = self.operand(st, fr, v[1])
            ck = v[0] if isinstance(v[0], str) else kind_of(v[0])
            return self.cast(st, ck, a, v[2])
        if k == "Ref" or k == "AddressOf":
            place = v[2] if k == "Ref" else v[1]
            mut = (k == "Ref" and v[1] != "Shared") or (k == "AddressOf")
            pj = place["projection"]
            if len(pj) == 1 and kind_of(pj[0])[0] == "Deref":
                # reborrow `&*x` of a reference that is itself a model value (e.g. a chunk of <[T]>::chunks)
                inner = st.store.get((fr.id, place["local"]))
                if type(inner) is Md and inner.kind in ("iter", "mslice"):
                    return inner
            try:
                key, proj = self.resolve(st, fr, place)
            except Unsupported:
                return Pt(None)
            return Pt(key, proj, mut)
        if k == "CopyForDeref":
            key, proj = self.resolve(st, fr, v)
            return self.load(st, key, proj)
        if k == "Aggregate":
            ak, av = kind_of(v[0])
            ops = [self.operand(st, fr, o) for o in v[1]]
            if ak == "Tuple" or ak == "Closure":
                return Ag(ops)
            if ak == "Array":
                usz = self.ctx.usize_ty()
                ln = self.ctx.const_int(st, len(ops), usz)
                if not ops:
                    return Sq(self.ctx.top_value(st, av), ln)
                elem = ops[0]
                for o in ops[1:]:
                    elem = self.join_vals(st, elem, o)
                return Sq(elem, ln, {i: o for i, o in enumerate(ops)} if len(ops) <= 64 else None)
            if ak == "Adt":
                t = self.prog.ty(dest_ty)
                if t.adt and t.adt["kind"] == "enum":
                    return En({av[1]: tuple(ops)})
                m = self.ctx.models.type_model(t)
                if m is not None and not getattr(m, "aggregate_ok", False):
                    raise Unsupported(f"aggregate of modelled type {t.s}")
                return Ag(ops)
            if ak == "RawPtr":
                return ops[0] if ops and type(ops[0]) is Pt else Pt(None)
            raise Unsupported(f"aggregate {ak}")
        if k == "Len":
            key, proj = self.resolve(st, fr, v)
            s = self.load(st, key, proj)
            if type(s) is Sq:
                return s.len
            raise Unsupported("Len of non-seq")
        if k == "Discriminant":
            key, proj = self.resolve(st, fr, v)
            e = self.load(st, key, proj)
            if type(e) is En:
                t = self.prog.ty(self.place_ty(fr, v))
                ds = sorted(self.discr_of(t, i) for i in e.vs)
                d = self.ctx.mk_int(st, ds[0], ds[-1], dest_ty)
                st.prov[d.vid] = ("discr", (), (key, proj, t.id))
                return d
            if type(e) is Top:
                return self.ctx.top_int(st, dest_ty)
            raise Unsupported(f"discriminant of {type(e).__name__}")
        if k == "Repeat":
            a = self.operand(st, fr, v[0])
            n = array_len(self.prog.ty(dest_ty))
            return Sq(a, self.ctx.const_int(st, n, self.ctx.usize_ty()))
        if k == "ThreadLocalRef":
            return Pt(None)
        raise Unsupported(f"rvalue {k}")

    def discr_of(self, t, variant):
        d = t.adt["variants"][variant]["discr"]
        return int(d) if d != "" else variant

    def variant_of_discr(self, t, d):
        for i, v in enumerate(t.adt["variants"]):
            if (int(v["discr"]) if v["discr"] != "" else i) == d:
                return i
        return None

    # ------------------------------------------------------------------ integer arithmetic
    def binop(self, st, op, a, b, dest_ty, checked):
        ta, tb = type(a), type(b)
        if ta is Fl or tb is Fl:
            return self.float_binop(st, op, a, b, dest_ty)
        if ta is Pt or tb is Pt:
            if op in ("Eq", "Ne"):
                return self.mkbool(st)
            raise Unsupported(f"pointer binop {op}")
        if ta is not I or tb is not I:
            if op in ("Eq", "Ne", "Lt", "Le", "Gt", "Ge"):
                return self.mkbool(st)
            raise Unsupported(f"binop {op} on {ta.__name__},{tb.__name__}")
        la, ha = self.eff_itv(st, a.vid)
        lb, hb = self.eff_itv(st, b.vid)
        taint = tl(st, a.vid, b.vid)
        if op in ("Eq", "Ne", "Lt", "Le", "Gt", "Ge"):
            r = self.decide_cmp(st, op, a, b)
            res = self.mkbool(st, r, ("cmp", (a.vid, b.vid), op))
            if taint is not None:
                st.taint.add(res.vid, taint)
            return res
        rty = dest_ty
        if checked:
            rty = self.prog.ty(dest_ty).arg[0]
        tlo, thi = self.ctx.int_range(rty)
        isbool = self.prog.ty(a.ty).tag == "Bool"
        if not isbool and not checked and op.replace("Unchecked", "") in ("BitAnd", "BitOr", "Shl", "Shr"):
            z = self.kbits_binop(st, op.replace("Unchecked", ""), a, b, rty, taint)
            if z is not None:
                return z
            # `x >> k` and `x & (2^k - 1)` on a non-negative x are `x / 2^k` and `x % 2^k`: analyse them as such, so that the
            # quotient/remainder relations (cursor = 8 * byte + bit) are the same whichever way the code is written
            if la >= 0 and op in ("Shr", "ShrUnchecked") and lb == hb and 0 < lb < 63 and self.prog.ty(a.ty).tag == "Uint":
                return self.binop(st, "Div", a, self.ctx.const_int(st, 1 << lb, a.ty), dest_ty, False)
            if op == "BitAnd":
                for x_, c_lo, c_hi, x_lo in ((a, lb, hb, la), (b, la, ha, lb)):
                    if c_lo == c_hi and c_lo > 0 and (c_lo & (c_lo + 1)) == 0 and x_lo >= 0 and self.prog.ty(x_.ty).tag == "Uint":
                        return self.binop(st, "Rem", x_, self.ctx.const_int(st, c_lo + 1, x_.ty), dest_ty, False)
        res = None
        facts = []   # (coef about a): z - a in [dlo, dhi]
        scale = None
        prov = None
        base = op.replace("Unchecked", "")
        if base == "Add":
            mlo, mhi = la + lb, ha + hb
            facts = [(a, lb, hb), (b, la, ha)]
            prov = ("add", (a.vid, b.vid), None)
        elif base == "Sub":
            mlo, mhi = la - hb, ha - lb
            facts = [(a, -hb, -lb)]
            prov = ("sub", (a.vid, b.vid), None)
            c = st.bound(a.vid, b.vid)
            if c is not None:
                mhi = min(mhi, c)
            c = st.bound(b.vid, a.vid)
            if c is not None:
                mlo = max(mlo, -c)
        elif base == "Mul":
            cs = [la * lb, la * hb, ha * lb, ha * hb]
            mlo, mhi = min(cs), max(cs)
            if a.vid == b.vid:
                mlo = 0 if la <= 0 <= ha else min(la * la, ha * ha)     # a square
            prov = ("mul", (a.vid, b.vid), None)
            if lb == hb and lb > 0:
                scale = (lb, a.vid)
            elif la == ha and la > 0:
                scale = (la, b.vid)
        elif op == "Div":
            if lb <= 0 <= hb:
                mlo, mhi = tlo, thi
            else:
                cs = [tdiv(la, lb), tdiv(la, hb), tdiv(ha, lb), tdiv(ha, hb)]
                mlo, mhi = min(cs), max(cs)
                if lb == hb:
                    prov = ("div", (a.vid,), lb)
        elif op == "Rem":
            if lb <= 0 <= hb:
                mlo, mhi = tlo, thi
            else:
                m = max(abs(lb), abs(hb))
                if la >= 0:
                    if lb == hb and ha - la < m and la % m <= ha % m:
                        mlo, mhi = la % m, ha % m
                    else:
                        mlo, mhi = 0, min(m - 1, ha)
                elif ha <= 0:
                    mlo, mhi = max(-(m - 1), la), 0
                else:
                    mlo, mhi = max(-(m - 1), la), min(m - 1, ha)
                if lb == hb:
                    prov = ("mod", (a.vid,), lb)
        elif op in ("BitAnd", "BitOr", "BitXor"):
            if isbool:
                r = None
                if op == "BitAnd":
                    if ha == 0 or hb == 0:
                        r = 0
                    elif la == 1 and lb == 1:
                        r = 1
                    pk = "and"
                elif op == "BitOr":
                    if la == 1 or lb == 1:
                        r = 1
                    elif ha == 0 and hb == 0:
                        r = 0
                    pk = "or"
                else:
                    if la == ha and lb == hb:
                        r = la ^ lb
                    pk = "xor"
                res = self.mkbool(st, r, (pk, (a.vid, b.vid), None))
                if taint is not None:
                    st.taint.add(res.vid, taint)
                return res
            if la == ha and lb == hb:
                v = {"BitAnd": la & lb, "BitOr": la | lb, "BitXor": la ^ lb}[op]
                mlo = mhi = wrap_to(v, tlo, thi)
            elif op == "BitAnd":
                if la >= 0 and lb >= 0:
                    mlo, mhi = 0, min(ha, hb)
                    # known bits (provenance ("kbits", (), (mask, value))) of one side against a constant on the other:
                    # every bit known to be 1 that the constant keeps is 1 in the result
                    for x, c in ((a, lb if lb == hb else None), (b, la if la == ha else None)):
                        pk_ = st.prov.get(x.vid)
                        if c is not None and pk_ and pk_[0] == "kbits":
                            ones = pk_[2][0] & pk_[2][1] & c
                            zeros_known = pk_[2][0] & ~pk_[2][1]
                            mlo = max(mlo, ones)
                            mhi = min(mhi, c & ~zeros_known & 0xFFFFFFFFFFFFFFFF)
                elif lb >= 0:
                    mlo, mhi = 0, hb
                elif la >= 0:
                    mlo, mhi = 0, ha
                else:
                    mlo, mhi = tlo, thi
            elif la >= 0 and lb >= 0:
                top = (1 << max(ha.bit_length(), hb.bit_length())) - 1
                mlo, mhi = (max(la, lb) if op == "BitOr" else 0), min(top, ha + hb)
                if op == "BitOr":
                    prov = ("bitor", (a.vid, b.vid), None)
            else:
                mlo, mhi = tlo, thi
        elif base in ("Shl", "Shr"):
            bits = self.prog.ty(a.ty).bits()
            if lb < 0 or hb >= bits:
                # MIR masks the shift amount when unchecked; a checked shift asserts first
                lb2, hb2 = max(lb, 0), min(hb, bits - 1)
                if lb2 > hb2:
                    lb2, hb2 = 0, bits - 1
            else:
                lb2, hb2 = lb, hb
            if base == "Shl":
                if lb2 == hb2:
                    prov = ("shl", (a.vid,), lb2)
                if la >= 0:
                    mlo, mhi = la << lb2, ha << hb2
                else:
                    mlo, mhi = min(la << hb2, la << lb2), max(ha << hb2, ha << lb2, 0)
                if not (tlo <= mlo and mhi <= thi):
                    mlo, mhi = tlo, thi   # bits shifted out / sign change: give up precision
                elif lb2 == hb2 and la >= 0 and lb2 > 0 and self.ctx.hooks.get("kbits_eager"):
                    # a non-negative value shifted left by a constant without loss: its low bits are known zeros (rules working
                    # in the known-bits domain follow such values through `as u8` and `|`)
                    wbits = self.prog.ty(rty).bits()
                    allw = (1 << wbits) - 1
                    prov = ("kbits", (), ((((1 << lb2) - 1) | (allw & ~((1 << mhi.bit_length()) - 1))) & allw, 0))
            else:
                if la >= 0:
                    mlo, mhi = la >> hb2, ha >> lb2
                else:
                    mlo, mhi = min(la >> lb2, la >> hb2), max(ha >> lb2, ha >> hb2)
                if lb == hb and lb >= 0:
                    prov = ("div", (a.vid,), 1 << lb) if la >= 0 else None
                    pk_ = st.prov.get(a.vid)
                    if pk_ and pk_[0] == "kbits" and la >= 0:
                        prov = ("kbits", (), (pk_[2][0] >> lb, pk_[2][1] >> lb))     # known bits move with the value
        elif op == "Cmp":
            return self.ctx.top_value(st, dest_ty)
        else:
            raise Unsupported(f"binop {op}")
        fits = tlo <= mlo and mhi <= thi
        rpoly = None
        if st.res and base in ("Add", "Sub", "Mul", "Rem"):
            ra = st.res.get(a.vid, p_const(la) if la == ha else None)
            rb = st.res.get(b.vid, p_const(lb) if lb == hb else None)
            if base == "Rem":
                if ra is not None and lb == hb == _absint.RQ:
                    rpoly = ra
            elif ra is not None and rb is not None:
                if len(ra) * len(rb) <= 64:
                    rpoly = p_add(ra, rb) if base == "Add" else p_add(ra, rb, -1) if base == "Sub" else p_mul(ra, rb)
        if checked:
            if fits:
                ovf = self.mkbool(st, 0)
                rl, rh = mlo, mhi
            else:
                rl, rh = max(mlo, tlo), min(mhi, thi)
                if rl > rh:
                    ovf = self.mkbool(st, 1)
                    rl, rh = tlo, thi
                else:
                    ovf = self.mkbool(st, None)
            z = self.ctx.mk_int(st, rl, rh, rty, taint=taint)
            st.prov[ovf.vid] = ("ovf", (z.vid,), (op, mlo, mhi))
            self.derive(st, z, facts, scale, prov, exact=True)
            if rpoly is not None:
                st.res[z.vid] = rpoly
            return Ag((z, ovf))
        if fits or "Unchecked" in op:
            z = self.ctx.mk_int(st, max(mlo, tlo), min(mhi, thi), rty, taint=taint)
            self.derive(st, z, facts, scale, prov, exact=True)
            if rpoly is not None:
                st.res[z.vid] = rpoly
            return z
        # wrapping arithmetic
        if mlo == mhi:
            v = wrap_to(mlo, tlo, thi)
            return self.ctx.mk_int(st, v, v, rty, taint=taint)
        span = thi - tlo + 1
        if mhi - mlo < span:
            wl, wh = wrap_to(mlo, tlo, thi), wrap_to(mhi, tlo, thi)
            if wl <= wh and (mlo - wl) == (mhi - wh):
                z = self.ctx.mk_int(st, wl, wh, rty, taint=taint)
                st.prov[z.vid] = ("wrapped", (), (mlo - wl))
                if rpoly is not None:
                    st.res[z.vid] = p_add(rpoly, p_const(mlo - wl), -1)
                return z
        return self.ctx.mk_int(st, tlo, thi, rty, taint=taint)

    def eff_itv(self, st, vid):
        """interval of vid, tightened through relational facts when it is very wide"""
        lo, hi = st.itv[vid]
        if hi != lo and st.facts.d:
            for s, c in st.facts.out(vid):
                hs = st.itv[s][1]
                if hs + c < hi:
                    hi = hs + c
            for p, c in st.facts.inc(vid):
                lp = st.itv[p][0]
                if lp - c > lo:
                    lo = lp - c
            if lo > hi:
                raise Diverge()
            if (lo, hi) != st.itv[vid]:
                st.itv[vid] = (lo, hi)
        return lo, hi

    def derive(self, st, z, facts, scale, prov, exact):
        if prov is not None:
            st.prov[z.vid] = prov
            if prov[0] == "div":
                x, k = prov[1][0], prov[2]
                # x - s <= c with s = k*t  =>  z - t <= floor(c/k)
                for s, c in st.facts.out(x):
                    sc = st.scale.get(s)
                    if sc and sc[0] == k:
                        st.add_fact(z.vid, sc[1], c // k)
                sc = st.scale.get(x)
                if sc and sc[0] % k == 0 and sc[0] // k == 1:
                    st.add_fact(z.vid, sc[1], 0)
                    st.add_fact(sc[1], z.vid, 0)
        if scale is not None:
            st.scale[z.vid] = scale
        for (x, dlo, dhi) in facts:
            # z - x in [dlo, dhi]
            if dhi != INF and dlo != -INF and -(1 << 70) < dlo and dhi < (1 << 70):
                st.add_fact(z.vid, x.vid, dhi)
                st.add_fact(x.vid, z.vid, -dlo)
                for s, c in st.facts.out(x.vid):
                    if s != z.vid:
                        st.add_fact(z.vid, s, c + dhi)
                for p, c in st.facts.inc(x.vid):
                    if p != z.vid:
                        st.add_fact(p, z.vid, c - dlo)

    def decide_cmp(self, st, op, a, b):
        la, ha = st.itv[a.vid]
        lb, hb = st.itv[b.vid]
        if a.vid == b.vid:
            return op in ("Eq", "Le", "Ge")
        ab = st.bound(a.vid, b.vid)   # a - b <= ab
        ba = st.bound(b.vid, a.vid)   # b - a <= ba
        lt = (ab is not None and ab <= -1)
        le = (ab is not None and ab <= 0)
        gt = (ba is not None and ba <= -1)
        ge = (ba is not None and ba <= 0)
        if op == "Lt":
            return True if lt else (False if ge else None)
        if op == "Le":
            return True if le else (False if gt else None)
        if op == "Gt":
            return True if gt else (False if le else None)
        if op == "Ge":
            return True if ge else (False if lt else None)
        if op == "Eq":
            if la == ha == lb == hb:
                return True
            if lt or gt:
                return False
            if le and ge:
                return True
            return None
        if op == "Ne":
            r = self.decide_cmp(st, "Eq", a, b)
            return None if r is None else (not r)
        return None

    def unop(self, st, op, a, dest_ty):
        if op == "PtrMetadata":
            if type(a) is Pt and a.key is not None:
                s = self.load(st, a.key, a.proj)
                if type(s) is Sq:
                    return s.len
                if type(s) is Md and "len" in s.d:
                    return s.d["len"]
            t = self.prog.ty(dest_ty)
            if t.tag in ("Int", "Uint"):
                return self.ctx.mk_int(st, 0, ISIZE_MAX, dest_ty)
            return UNIT
        if type(a) is Fl:
            if op == "Neg":
                return Fl(-a.hi, -a.lo, a.nan, ("neg", a.tag) if a.tag else None)
            raise Unsupported(f"float unop {op}")
        if type(a) is not I:
            raise Unsupported(f"unop {op} on {type(a).__name__}")
        lo, hi = st.itv[a.vid]
        t = self.prog.ty(a.ty)
        taint = tl(st, a.vid)
        if op == "Not":
            if t.tag == "Bool":
                r = None if lo != hi else (1 - lo)
                res = self.mkbool(st, r, ("not", (a.vid,), None))
                if taint is not None:
                    st.taint.add(res.vid, taint)
                return res
            tlo, thi = t.int_range()
            if t.tag == "Int":
                return self.ctx.mk_int(st, ~hi, ~lo, a.ty, taint=taint)
            return self.ctx.mk_int(st, thi - hi, thi - lo, a.ty, taint=taint)
        if op == "Neg":
            tlo, thi = t.int_range()
            nlo, nhi = -hi, -lo
            if nhi > thi:
                if nlo > thi:
                    nlo, nhi = tlo, tlo
                else:
                    nlo, nhi = tlo, thi
            z = self.ctx.mk_int(st, max(nlo, tlo), nhi, a.ty, taint=taint)
            st.prov[z.vid] = ("neg", (a.vid,), None)
            if a.vid in st.res and -hi >= tlo and -lo <= thi:
                st.res[z.vid] = p_add({}, st.res[a.vid], -1)
            return z
        raise Unsupported(f"unop {op}")

    def cast(self, st, ck, a, ty):
        t = self.prog.ty(ty)
        if isinstance(ck, tuple):
            # PointerCoercion
            sub = ck[1] if isinstance(ck[1], str) else kind_of(ck[1])[0]
            if sub in ("Unsize", "MutToConstPointer", "ArrayToPointer"):
                if type(a) is Md and a.kind == "box":
                    return a
                return a if type(a) is Pt else Pt(None)
            if sub in ("ReifyFnPointer", "ClosureFnPointer", "UnsafeFnPointer"):
                return Top(ty)
            raise Unsupported(f"pointer coercion {sub}")
        if ck == "IntToInt":
            if type(a) is not I:
                if type(a) is En:
                    # fieldless enum to int
                    return self.ctx.top_int(st, ty)
                raise Unsupported("IntToInt of non-int")
            lo, hi = st.itv[a.vid]
            tlo, thi = t.int_range()
            if tlo <= lo and hi <= thi:
                r = I(a.vid, ty)      # value preserved: same symbolic value, new machine type
                return r
            taint = tl(st, a.vid)
            if lo == hi:
                v = wrap_to(lo, tlo, thi)
                return self.ctx.mk_int(st, v, v, ty, taint=taint)
            span = thi - tlo + 1
            if hi - lo < span:
                wl, wh = wrap_to(lo, tlo, thi), wrap_to(hi, tlo, thi)
                if wl <= wh and (lo - wl) == (hi - wh):
                    z = self.ctx.mk_int(st, wl, wh, ty, taint=taint)
                    st.prov[z.vid] = ("wrapcast", (a.vid,), lo - wl)
                    if a.vid in st.res:
                        st.res[z.vid] = p_add(st.res[a.vid], p_const(lo - wl), -1)
                    return z
            pk_ = st.prov.get(a.vid)
            if (pk_ and pk_[0] == "kbits") or self.ctx.hooks.get("kbits_eager"):
                sa = self.prog.ty(a.ty)
                if sa.tag in ("Int", "Uint") and t.tag in ("Int", "Uint") and t.bits() < sa.bits():
                    kb = self.kb_of(st, a, sa.bits())
                    if kb is not None:
                        allt = (1 << t.bits()) - 1
                        if kb[0] & allt:
                            return self.kbits_value(st, kb[0] & allt, kb[1] & allt, ty, taint)     # truncation keeps the low bits
            z = self.ctx.mk_int(st, tlo, thi, ty, taint=taint)
            st.prov[z.vid] = ("truncast", (a.vid,), None)
            return z
        if ck == "IntToFloat":
            if type(a) is I:
                lo, hi = st.itv[a.vid]
                return Fl(float(lo), float(hi), False, ("int", a.vid))
            return Fl(-INF, INF, False)
        if ck == "FloatToInt":
            tlo, thi = t.int_range()
            if type(a) is Fl:
                lo = tlo if (a.lo == -INF or a.lo != a.lo) else max(tlo, min(thi, math.trunc(a.lo)))
                hi = thi if (a.hi == INF or a.hi != a.hi) else max(tlo, min(thi, math.trunc(a.hi)))
                if a.nan:
                    lo, hi = min(lo, 0), max(hi, 0)
                z = self.ctx.mk_int(st, lo, hi, ty)
                st.prov[z.vid] = ("f2i", (), a.tag)
                return z
            return self.ctx.top_int(st, ty)
        if ck == "FloatToFloat":
            return a if type(a) is Fl else Fl(-INF, INF, True)
        if ck in ("PtrToPtr", "FnPtrToPtr"):
            return a if type(a) is Pt else Pt(None)
        if ck == "Transmute":
            if type(a) is Pt and t.tag not in ("Int", "Uint"):
                return a
            if type(a) is Md and a.kind == "box" and t.tag in ("RawPtr", "Ref"):
                return a.d["ptr"]
            return self.ctx.top_value(st, ty)
        if ck in ("PointerExposeAddress", "PointerWithExposedProvenance"):
            return self.ctx.top_value(st, ty)
        if ck == "Subtype":
            return a
        raise Unsupported(f"cast {ck}")


    # ------------------------------------------------------------------ known bits (two's-complement patterns)
    def kb_of(self, st, v, W):
        """(mask, value) over the W-bit two's-complement pattern of integer value v, or None when nothing is known"""
        lo, hi = st.itv[v.vid]
        allb = (1 << W) - 1
        if lo == hi:
            return allb, lo & allb
        p = st.prov.get(v.vid)
        if p and p[0] == "kbits":
            m, val = p[2][0] & allb, p[2][1] & allb
            if lo >= 0:
                m |= allb & ~((1 << hi.bit_length()) - 1)       # the interval bounds the width: higher bits are 0
                val &= ~(allb & ~((1 << hi.bit_length()) - 1)) | (p[2][1] & p[2][0])
                val &= allb
            return m, val & m
        if lo == 0 and hi == 1:
            return allb & ~1, 0            # a bool widened to an integer: every bit but the lowest is 0
        return None

    def kbits_value(self, st, m2, v2, rty, taint):
        """integer of type rty whose W-bit pattern has the known bits (m2, v2): interval implied by the pattern + provenance"""
        t = self.prog.ty(rty)
        W = t.bits()
        allb = (1 << W) - 1
        unk = allb & ~m2
        lo_p, hi_p = v2, v2 | unk
        if t.tag == "Int":
            sb = 1 << (W - 1)
            if m2 & sb:
                lo, hi = (lo_p - (1 << W), hi_p - (1 << W)) if v2 & sb else (lo_p, hi_p)
            else:
                lo = ((v2 | sb) & allb) - (1 << W)
                hi = (v2 | (unk & ~sb))
        else:
            lo, hi = lo_p, hi_p
        z = self.ctx.mk_int(st, lo, hi, rty, taint=taint)
        if m2 != allb:
            st.prov[z.vid] = ("kbits", (), (m2, v2))
        return z

    def kbits_binop(self, st, base, a, b, rty, taint):
        t = self.prog.ty(rty)
        if t.tag not in ("Int", "Uint"):
            return None
        W = t.bits()
        allb = (1 << W) - 1
        ka, kb = self.kb_of(st, a, W), self.kb_of(st, b, W)
        pa, pb = st.prov.get(a.vid), st.prov.get(b.vid)
        if not ((pa and pa[0] == "kbits") or (pb and pb[0] == "kbits")):
            # only when a partition with known bits is involved; rules that build integers bit by bit from booleans
            # (`(x << 1) | bit`) switch on the eager mode, where constants and 0/1 values count as known-bits values
            if not (self.ctx.hooks.get("kbits_eager") and ka is not None and (kb is not None or base in ("Shl", "Shr"))):
                return None
        if base in ("Shl", "Shr"):
            lb, hb = st.itv[b.vid]
            if lb != hb or not (0 <= lb < W) or ka is None:
                return None
            k = lb
            m, v = ka
            if base == "Shl":
                m2, v2 = ((m << k) | ((1 << k) - 1)) & allb, (v << k) & allb
            else:
                signed = self.prog.ty(a.ty).tag == "Int"
                top = ((1 << k) - 1) << (W - k) if k else 0
                sign_known = (m >> (W - 1)) & 1
                sign = (v >> (W - 1)) & 1
                m2, v2 = m >> k, v >> k
                if not signed:
                    m2 |= top
                elif sign_known:
                    m2 |= top
                    v2 |= top if sign else 0
        elif base == "BitAnd":
            if ka is None and kb is None:
                return None
            ma, va = ka if ka else (0, 0)
            mb, vb = kb if kb else (0, 0)
            zeros = (ma & ~va) | (mb & ~vb)            # a bit known 0 on either side is 0
            ones = (ma & va) & (mb & vb)               # known 1 on both sides
            m2, v2 = (zeros | ones) & allb, ones & allb
        else:   # BitOr
            if ka is None and kb is None:
                return None
            ma, va = ka if ka else (0, 0)
            mb, vb = kb if kb else (0, 0)
            ones = (ma & va) | (mb & vb)
            zeros = (ma & ~va) & (mb & ~vb)
            m2, v2 = (zeros | ones) & allb, ones & allb
        # interval implied by the pattern
        signed = t.tag == "Int"
        unk = allb & ~m2
        lo_p, hi_p = v2, v2 | unk
        if signed:
            sb = 1 << (W - 1)
            if m2 & sb:
                if v2 & sb:
                    lo, hi = lo_p - (1 << W), hi_p - (1 << W)
                else:
                    lo, hi = lo_p, hi_p
            else:
                lo, hi = (v2 | sb | (unk & ~sb)) - (1 << W) if True else 0, (v2 | (unk & ~sb))
                lo = ((v2 | sb) & allb) - (1 << W)         # most negative: sign set, other unknown bits clear
                hi = (v2 | (unk & ~sb))                    # most positive: sign clear, other unknown bits set
        else:
            lo, hi = lo_p, hi_p
        # the operands' intervals bound the result as well (OR never decreases, AND never increases a non-negative value)
        la_, ha_ = st.itv[a.vid]
        lb_, hb_ = st.itv[b.vid]
        if la_ >= 0 and lb_ >= 0:
            if base == "BitOr":
                lo = max(lo, la_, lb_)
            elif base == "BitAnd":
                hi = min(hi, ha_, hb_)
            if lo > hi:
                lo, hi = lo_p, hi_p
        z = self.ctx.mk_int(st, lo, hi, rty, taint=taint)
        if m2 != allb:
            st.prov[z.vid] = ("kbits", (), (m2, v2))
        return z

    # ------------------------------------------------------------------ floats
    def float_binop(self, st, op, a, b, dest_ty):
        if type(a) is not Fl or type(b) is not Fl:
            if op in ("Eq", "Ne", "Lt", "Le", "Gt", "Ge"):
                return self.mkbool(st)
            return Fl(-INF, INF, True)
        if op in ("Eq", "Ne", "Lt", "Le", "Gt", "Ge"):
            r = None
            if not a.nan and not b.nan:
                if op == "Lt":
                    r = True if a.hi < b.lo else (False if a.lo >= b.hi else None)
                elif op == "Le":
                    r = True if a.hi <= b.lo else (False if a.lo > b.hi else None)
                elif op == "Gt":
                    r = True if a.lo > b.hi else (False if a.hi <= b.lo else None)
                elif op == "Ge":
                    r = True if a.lo >= b.hi else (False if a.hi < b.lo else None)
                elif op == "Eq":
                    r = True if a.lo == a.hi == b.lo == b.hi else (False if a.hi < b.lo or b.hi < a.lo else None)
                elif op == "Ne":
                    r = False if a.lo == a.hi == b.lo == b.hi else (True if a.hi < b.lo or b.hi < a.lo else None)
            return self.mkbool(st, r, ("fcmp", (), (op, a.tag, b.tag, (a.lo, a.hi), (b.lo, b.hi))))
        nan = a.nan or b.nan
        tag = ("f" + op, a.tag if a.tag is not None else (a.lo if a.lo == a.hi else None),
               b.tag if b.tag is not None else (b.lo if b.lo == b.hi else None))
        try:
            if op == "Add":
                lo, hi = fdown(a.lo + b.lo), fup(a.hi + b.hi)
            elif op == "Sub":
                lo, hi = fdown(a.lo - b.hi), fup(a.hi - b.lo)
            elif op == "Mul":
                cs = [x * y for x in (a.lo, a.hi) for y in (b.lo, b.hi)]
                cs = [c for c in cs if c == c]
                if len(cs) < 4:
                    nan = True
                    cs = cs or [-INF, INF]
                lo, hi = fdown(min(cs)), fup(max(cs))
            elif op == "Div":
                if b.lo <= 0 <= b.hi:
                    lo, hi, nan = -INF, INF, True
                else:
                    cs = [x / y for x in (a.lo, a.hi) for y in (b.lo, b.hi)]
                    cs = [c for c in cs if c == c]
                    lo, hi = fdown(min(cs)), fup(max(cs))
            elif op == "Rem":
                lo, hi, nan = -INF, INF, True
            else:
                raise Unsupported(f"float op {op}")
        except (OverflowError, ZeroDivisionError, ValueError):
            lo, hi, nan = -INF, INF, True
        if lo != lo or hi != hi:
            lo, hi, nan = -INF, INF, True
        if a.lo == a.hi and b.lo == b.hi and not nan:
            # exact constant folding (IEEE double, same as rustc's CTFE)
            v = {"Add": a.lo + b.lo, "Sub": a.lo - b.lo, "Mul": a.lo * b.lo, "Div": (a.lo / b.lo) if b.lo != 0 else INF}.get(op)
            if v is not None and v == v:
                lo = hi = v
        return Fl(lo, hi, nan, tag)

    # ======================================================================== refinement
    def set_itv(self, st, vid, lo, hi):
        olo, ohi = st.itv[vid]
        lo, hi = max(lo, olo), min(hi, ohi)
        if lo > hi:
            raise Diverge()
        if (lo, hi) != (olo, ohi):
            st.itv[vid] = (lo, hi)
            if lo == hi:
                self.on_known(st, vid, lo)
            self.retighten(st, vid)

    def retighten(self, st, vid, depth=0):
        """an operand got a tighter interval: re-evaluate the arithmetic results computed from it,
        and (backwards) the operands it was computed from"""
        if depth > 6:
            return
        own = st.prov.get(vid)
        if own and own[0] == "mul" and own[1][0] in st.itv and own[1][1] in st.itv:
            a, b = own[1]
            for x, k in ((a, st.itv[b]), (b, st.itv[a])):
                if k[0] == k[1] and k[0] > 0 and x != vid:
                    zl, zh = st.itv[vid]
                    ol, oh = st.itv[x]
                    nl, nh = max(ol, -((-zl) // k[0])), min(oh, zh // k[0])
                    if nl > nh:
                        raise Diverge()
                    if (nl, nh) != (ol, oh):
                        st.itv[x] = (nl, nh)
                        self.retighten(st, x, depth + 1)
                    break
        if own and own[0] in ("add", "sub") and own[1][0] in st.itv and own[1][1] in st.itv:
            a, b = own[1]
            zl, zh = st.itv[vid]
            la, ha = st.itv[a]
            lb, hb = st.itv[b]
            if own[0] == "add":
                na = (max(la, zl - hb), min(ha, zh - lb))
                nb = (max(lb, zl - ha), min(hb, zh - la))
            else:
                na = (max(la, zl + lb), min(ha, zh + hb))
                nb = (max(lb, la - zh), min(hb, ha - zl))
            for x, (nl, nh), (ol, oh) in ((a, na, (la, ha)), (b, nb, (lb, hb))):
                if nl > nh:
                    raise Diverge()
                if (nl, nh) != (ol, oh) and x != vid:
                    st.itv[x] = (nl, nh)
                    if nl == nh:
                        self.on_known(st, x, nl)
                    self.retighten(st, x, depth + 1)
        for z, p in list(st.prov.items()):
            if p[0] in ("add", "sub", "mul") and vid in p[1] and z in st.itv:
                a, b = p[1]
                if a not in st.itv or b not in st.itv:
                    continue
                la, ha = st.itv[a]
                lb, hb = st.itv[b]
                if p[0] == "add":
                    lo, hi = la + lb, ha + hb
                elif p[0] == "sub":
                    lo, hi = la - hb, ha - lb
                else:
                    cs = [la * lb, la * hb, ha * lb, ha * hb]
                    lo, hi = min(cs), max(cs)
                    if a == b:
                        lo = 0 if la <= 0 <= ha else min(la * la, ha * ha)
                olo, ohi = st.itv[z]
                nlo, nhi = max(lo, olo), min(hi, ohi)
                if nlo > nhi:
                    continue   # result wrapped or was clipped by an assert: leave alone
                if (nlo, nhi) != (olo, ohi):
                    st.itv[z] = (nlo, nhi)
                    self.retighten(st, z, depth + 1)

    def on_known(self, st, vid, val):
        p = st.prov.get(vid)
        if not p:
            return
        k = p[0]
        if k == "cmp":
            a, b = p[1]
            if a in st.itv and b in st.itv:
                self.assume_cmp(st, p[2] if val else CMP_NEG[p[2]], a, b)
        elif k == "not":
            if p[1][0] in st.itv:
                self.set_itv(st, p[1][0], 1 - val, 1 - val)
        elif k == "and":
            a, b = p[1]
            if a in st.itv and b in st.itv:
                if val == 1:
                    self.set_itv(st, a, 1, 1)
                    self.set_itv(st, b, 1, 1)
                else:
                    if st.itv[a] == (1, 1):
                        self.set_itv(st, b, 0, 0)
                    elif st.itv[b] == (1, 1):
                        self.set_itv(st, a, 0, 0)
        elif k == "or":
            a, b = p[1]
            if a in st.itv and b in st.itv:
                if val == 0:
                    self.set_itv(st, a, 0, 0)
                    self.set_itv(st, b, 0, 0)
                else:
                    if st.itv[a] == (0, 0):
                        self.set_itv(st, b, 1, 1)
                    elif st.itv[b] == (0, 0):
                        self.set_itv(st, a, 1, 1)
        elif k == "anyall":
            is_all, src, fval, fty, site = p[2]
            # `all(p)` true / `any(p)` false: the predicate has that value for EVERY element, so the
            # element abstraction of the source sequence can be refined by it
            if src is not None and ((is_all and val == 1) or (not is_all and val == 0)):
                self.refine_elems_by_predicate(st, src, fval, fty, 1 if is_all else 0, site)
        elif k == "discr":
            key, proj, tid = p[2]
            t = self.prog.ty(tid)
            var = self.variant_of_discr(t, val)
            try:
                e = self.load(st, key, proj)
            except (Unsupported, Diverge):
                return
            if type(e) is En and var is not None:
                if var not in e.vs:
                    raise Diverge()
                if len(e.vs) > 1:
                    self.store_at_raw(st, key, proj, En({var: e.vs[var]}))

    def refine_elems_by_predicate(self, st, src, fval, fty, want, site):
        from .models import call_closure
        try:
            seq = self.load(st, src.key, src.proj)
        except (Unsupported, Diverge):
            return
        if type(seq) is not Sq or type(seq.elem) is not I or seq.head:
            return
        e = seq.elem
        tmp = st.copy()
        probe = self.ctx.mk_int(tmp, *tmp.itv[e.vid], e.ty, taint=tl(tmp, e.vid))
        key = ("h", "probe", site)
        tmp.store[key] = probe
        fr = getattr(self, "_cur_frame", None)
        if fr is None:
            return
        cinst = self.callable_for_type(fty)
        captured = []

        def cap(ev, **kw):
            if ev == "assign" and kw["frame"].inst is cinst and kw["place"]["local"] == 0 and not kw["place"]["projection"]:
                captured.append((kw["value"], kw["st"].copy()))
        self.ctx.observers.append(cap)
        self.ctx.quiet += 1
        self.ctx.no_memo = getattr(self.ctx, "no_memo", 0) + 1
        try:
            outs = call_closure(self, tmp, fr, site[1], fval, fty, [Pt(key)])
        except (Unsupported, Diverge) as ex:
            self.ctx.emit("unsupported", fn=fr.inst.name, where="any/all refinement", what=str(ex))
            return
        finally:
            self.ctx.quiet -= 1
            self.ctx.no_memo -= 1
            self.ctx.observers.remove(cap)
        lo, hi = None, None
        # every point where the predicate's result is produced, each in its own path state
        cands = captured if captured else [(r, s2) for r, s2 in outs]
        for r, s2 in cands:
            if type(r) is not I or probe.vid not in s2.itv:
                return
            try:
                self.set_itv(s2, r.vid, want, want)
            except Diverge:
                continue
            pl, ph = s2.itv[probe.vid]
            lo = pl if lo is None else min(lo, pl)
            hi = ph if hi is None else max(hi, ph)
        if lo is None:
            raise Diverge()
        self.set_itv(st, e.vid, lo, hi)

    def store_at_raw(self, st, key, proj, val):
        """replace the value at (key, proj) without weak-update semantics (refinement only)"""
        def upd(v, proj):
            if not proj:
                return val
            pe = proj[0]
            if pe[0] == "f" and type(v) is Ag:
                f = list(v.f)
                f[pe[1]] = upd(f[pe[1]], proj[1:])
                return Ag(f)
            if pe[0] == "d" and type(v) is En and pe[1] in v.vs:
                inner = upd(Ag(v.vs[pe[1]]), proj[1:])
                vs = dict(v.vs)
                vs[pe[1]] = inner.f
                return En(vs)
            return v   # cannot refine in place: leave unrefined (sound)
        st.store[key] = upd(self.cell(st, key), proj)

    def assume_cmp(self, st, op, a, b):
        """a, b vids"""
        la, ha = st.itv[a]
        lb, hb = st.itv[b]
        if op == "Lt":
            # a strict bound that only removes one end value of the other operand is a disequality with that value
            # (`0 < x` on an unsigned x is `x != 0`): let the disequality refinements (remainders, ...) see it
            if la == ha == lb and hb > lb:
                self.exclude(st, b, la)
            elif lb == hb == ha and la < ha:
                self.exclude(st, a, lb)
            la, ha = st.itv[a]
            lb, hb = st.itv[b]
            self.set_itv(st, a, la, hb - 1)
            self.set_itv(st, b, st.itv[a][0] + 1, hb)
            self.add_fact_closed(st, a, b, -1)
        elif op == "Le":
            self.set_itv(st, a, la, hb)
            self.set_itv(st, b, st.itv[a][0], hb)
            self.add_fact_closed(st, a, b, 0)
        elif op == "Gt":
            self.assume_cmp(st, "Lt", b, a)
        elif op == "Ge":
            self.assume_cmp(st, "Le", b, a)
        elif op == "Eq":
            lo, hi = max(la, lb), min(ha, hb)
            self.set_itv(st, a, lo, hi)
            self.set_itv(st, b, lo, hi)
            st.add_fact(a, b, 0)
            st.add_fact(b, a, 0)
            # equal values share their relational bounds
            for s, c in st.facts.out(a):
                if s != b:
                    st.add_fact(b, s, c)
            for s, c in st.facts.out(b):
                if s != a:
                    st.add_fact(a, s, c)
            for p, c in st.facts.inc(a):
                if p != b:
                    st.add_fact(p, b, c)
            for p, c in st.facts.inc(b):
                if p != a:
                    st.add_fact(p, a, c)
        elif op == "Ne":
            if lb == hb:
                self.exclude(st, a, lb)
            elif la == ha:
                self.exclude(st, b, la)
            # boundary disequality with a relational bound: a - b <= 0 and a != b  =>  a - b <= -1
            f = st.facts.get((a, b))
            if f == 0:
                st.facts[(a, b)] = -1
            f = st.facts.get((b, a))
            if f == 0:
                st.facts[(b, a)] = -1

    def add_fact_closed(self, st, a, b, c):
        """a - b <= c, plus one step of closure on both sides"""
        st.add_fact(a, b, c)
        for p, d in st.facts.inc(a):
            if p != b:
                st.add_fact(p, b, d + c)      # p - a <= d , a - b <= c
        for s, d in st.facts.out(b):
            if s != a:
                st.add_fact(a, s, c + d)      # a - b <= c , b - s <= d

    def exclude(self, st, vid, c):
        lo, hi = st.itv[vid]
        if lo == hi == c:
            raise Diverge()
        if lo == c:
            self.set_itv(st, vid, lo + 1, hi)
        elif hi == c:
            self.set_itv(st, vid, lo, hi - 1)
        p = st.prov.get(vid)
        if p and p[0] == "mod" and c == 0:
            # x mod k != 0 and x - s <= d with s = k*t, d ≡ 0 (mod k)  =>  x - s <= d - 1 ; q = x div k gets q - t <= d/k - 1
            x, k = p[1][0], p[2]
            if x in st.itv and k > 0:
                xl, xh = st.itv[x]
                nl, nh = xl, xh
                if xl >= 0:
                    if xh != INF and xh % k == 0:
                        nh = xh - 1
                    if xl % k == 0:
                        nl = xl + 1
                    if (nl, nh) != (xl, xh):
                        if nl > nh:
                            raise Diverge()
                        st.itv[x] = (nl, nh)
                        for q, pq in list(st.prov.items()):
                            if pq[0] == "div" and pq[1][0] == x and pq[2] == k and q in st.itv:
                                ql, qh = st.itv[q]
                                st.itv[q] = (max(ql, nl // k), min(qh, nh // k) if nh != INF else qh)
                                self.retighten(st, q)
                for s, d in st.facts.out(x):
                    pp = x
                    if d % k == 0:
                        sc = st.scale.get(s)
                        if sc and sc[0] == k:
                            st.facts[(pp, s)] = d - 1
                            for q, pq in list(st.prov.items()):
                                if pq[0] == "div" and pq[1][0] == x and pq[2] == k and q in st.itv:
                                    st.add_fact(q, sc[1], (d - 1) // k)

    def assume_true(self, st, b, truth):
        """b: I (bool)"""
        v = 1 if truth else 0
        lo, hi = st.itv[b.vid]
        if lo == hi:
            if lo != v:
                raise Diverge()
            return
        self.set_itv(st, b.vid, v, v)

    # ======================================================================== callable lookup
    def callable_for_type(self, ty):
        if self._callable is None:
            m = {}
            for i in self.prog.inst:
                if i.kind in ("item",) and i.fn_ty is not None:
                    m.setdefault(i.fn_ty, i)
            for i in self.prog.inst:
                for e in i.edges:
                    if e["k"] == "fnitem":
                        m.setdefault(e["ty"], self.prog.inst[e["to"]])
            self._callable = m
        return self._callable.get(ty)


def tdiv(a, b):
    """division truncating toward zero on ints"""
    q = abs(a) // abs(b)
    return q if (a >= 0) == (b >= 0) else -q


def wrap_to(v, tlo, thi):
    span = thi - tlo + 1
    return (v - tlo) % span + tlo


def fdown(x):
    if x != x or x in (INF, -INF):
        return x
    return math.nextafter(x, -INF)


def fup(x):
    if x != x or x in (INF, -INF):
        return x
    return math.nextafter(x, INF)
