"""E2 — block execution, fixpoint engine (path mode + join mode), calls."""
import heapq
import os
import sys

import re
from .absint import (I, Fl, Ag, En, Sq, Pt, Top, Md, UNIT, BOT, Bot, St, Ctx, Frame, Unsupported, Diverge, PathAbort,
                     INF, join_states, same_state, gc_state, map_value, iter_ints, rename_bulk)
from .facts import CheckerError
from .interp import Interp, is_panic_fn, CMP_NEG
from .mir import kind_of, show

RET = "ret"


class MultiRet(list):
    """several return states of one activation, kept apart by the (constant) boolean return value"""


class Engine(Interp):
    def __init__(self, ctx):
        super().__init__(ctx)
        self.default_path_steps = 3000
        self.nested_path_steps = 60000
        import itertools
        self._tick = itertools.count()

    # ======================================================================== roles / keys
    def role_of(self, fr, operand):
        cache = fr.body.__dict__.setdefault("_roles", {})
        k = id(operand)
        r = cache.get(k)
        if r is None:
            r = self._role_of(fr, operand)
            cache[k] = r
        return r

    def _role_of(self, fr, operand):
        try:
            e = fr.body.expr(operand, depth=6)
            return self.show_named(fr, e)
        except Exception:
            return "?"

    def show_named(self, fr, e, depth=5):
        names = fr.body.names
        if not isinstance(e, tuple) or depth == 0:
            return "…"
        t = e[0]
        S = lambda n: self.show_named(fr, n, depth - 1)
        if t == "const":
            v = e[2]
            return "const" if isinstance(v, tuple) else repr(v)
        if t == "arg":
            return names.get(e[1], f"arg{e[1]}")
        if t in ("opaque",):
            return names.get(e[1], "tmp") if isinstance(e[1], int) else str(e[1])
        if t == "phi":
            return names.get(e[1], "phi")
        if t in ("bin", "chk", "ovf"):
            return f"({S(e[2])} {e[1]} {S(e[3])})"
        if t == "un":
            return f"{e[1]}({S(e[2])})"
        if t == "cast":
            return S(e[2])
        if t == "call":
            nm = e[2].split("::")[-1] if e[2] else "?"
            return f"{nm}({', '.join(S(a) for a in e[3])})"
        if t == "ref":
            return S(e[2])
        if t == "place":
            s = S(e[1])
            for p in e[2]:
                if p[0] == "Field":
                    s += f".{p[1]}"
                elif p[0] == "Index":
                    s += f"[{self.show_named(fr, p[1], depth - 1)}]"
                elif p[0] == "Deref":
                    pass
                else:
                    s += f".{p[0]}"
            return s
        if t == "len":
            return f"len({S(e[1])})"
        if t == "agg":
            return f"{e[1]}(..)"
        return t

    def loop_depth(self, body):
        c = getattr(body, "_loop_depth", None)
        if c is None:
            body.dominators()
            rpo_idx = {b: i for i, b in enumerate(body.rpo)}
            c = {}
            for t in body.rpo:
                for h in body.succ[t]:
                    if h in rpo_idx and rpo_idx[h] <= rpo_idx[t]:
                        # natural loop of back edge t -> h
                        loop = {h}
                        stack = [t]
                        while stack:
                            x = stack.pop()
                            if x in loop:
                                continue
                            loop.add(x)
                            stack.extend(p for p in body.pred[x] if p in rpo_idx)
                        for x in loop:
                            c[x] = c.get(x, 0) + 1
                        lb = body.__dict__.setdefault("_loop_bodies", {})
                        lb[h] = lb.get(h, set()) | loop
            body._loop_depth = c
            body.__dict__.setdefault("_loop_bodies", {})
        return c

    def cyclic_blocks(self, body):
        c = getattr(body, "_cyclic", None)
        if c is None:
            c = set()
            for b in range(len(body.blocks)):
                seen = set()
                stack = list(body.succ[b])
                while stack:
                    x = stack.pop()
                    if x == b:
                        c.add(b)
                        break
                    if x in seen:
                        continue
                    seen.add(x)
                    stack.extend(body.succ[x])
            body._cyclic = c
        return c

    # ======================================================================== block execution
    def exec_block(self, st, fr, bi, pathmode=False, start=0):
        """execute block bi on st (mutated); returns list of (successor, state)"""
        body = fr.body
        bb = body.blocks[bi]
        ctx = self.ctx
        ctx.steps += 1
        if ctx.step_limit and ctx.steps > ctx.step_limit:
            raise CheckerError(f"analysis budget of {ctx.step_limit} abstract block executions exceeded (in {fr.inst.name})")
        self._cur_frame = fr
        stmts = bb["statements"]
        for si in range(start, len(stmts)):
            stmt = stmts[si]
            k, v = kind_of(stmt["kind"])
            if k == "Assign":
                place, rv = v
                # trace partitioning on the branch-free idiom `(cond) as int`
                rk, rvv = kind_of(rv)
                if rk == "Cast" and rvv[0] == "IntToInt" and len(st.part) < ctx.max_parts and bi not in self.cyclic_blocks(body):
                    try:
                        bv = self.operand(st, fr, rvv[1])
                    except Unsupported:
                        bv = None
                    if type(bv) is I and self.prog.ty(bv.ty).tag == "Bool" and st.itv[bv.vid] == (0, 1):
                        outs = []
                        for val in (0, 1):
                            s2 = st.copy()
                            try:
                                self.set_itv(s2, bv.vid, val, val)
                            except Diverge:
                                continue
                            s2.part = st.part + ((bi, si, val),)
                            try:
                                outs.extend(self.exec_block(s2, fr, bi, pathmode, start=si))
                            except Diverge:
                                pass
                        return outs
                dest_ty = self.place_ty(fr, place) if place["projection"] else body.locals[place["local"]]["ty"]
                try:
                    val = self.rvalue(st, fr, rv, dest_ty, (bi, si))
                except Unsupported as e:
                    ctx.emit("unsupported", fn=fr.inst.name, where=body.span_of(bi, si), what=str(e))
                    if not fr.inst.local:
                        raise     # external code is either fully understood or treated as an unknown call
                    val = ctx.top_value(st, dest_ty)
                key, proj = self.resolve(st, fr, place)
                self.store_at(st, key, proj, val)
                if ctx.observers:
                    ctx.emit("assign", frame=fr, bb=bi, si=si, place=place, value=val, st=st)
            elif k == "SetDiscriminant":
                key, proj = self.resolve(st, fr, v["place"])
                e = self.load(st, key, proj)
                if type(e) is En and v["variant_index"] in e.vs:
                    self.store_at(st, key, proj, En({v["variant_index"]: e.vs[v["variant_index"]]}))
                else:
                    raise Unsupported("SetDiscriminant")
            elif k == "StorageDead":
                st.store.pop((fr.id, v), None)
            elif k == "Intrinsic":
                ik, iv = kind_of(v)
                if ik == "Assume":
                    pass
                else:
                    raise Unsupported(f"intrinsic statement {ik}")
            else:
                pass  # StorageLive, FakeRead, Nop, PlaceMention, AscribeUserType, Coverage, ConstEvalCounter
        tk, tv = kind_of(bb["terminator"]["kind"])
        if tk == "Goto":
            return [(tv["target"], st)]
        if tk == "Return":
            return [(RET, st)]
        if tk == "Unreachable":
            return []
        if tk == "Drop":
            return [(tv["target"], st)]
        if tk in ("Resume", "Abort"):
            return []
        if tk == "SwitchInt":
            return self.exec_switch(st, fr, bi, tv)
        if tk == "Assert":
            return self.exec_assert(st, fr, bi, tv)
        if tk == "Call":
            return self.exec_call(st, fr, bi, tv)
        raise Unsupported(f"terminator {tk}")

    def exec_switch(self, st, fr, bi, tv):
        d = self.operand(st, fr, tv["discr"])
        branches = tv["targets"]["branches"]
        other = tv["targets"]["otherwise"]
        if type(d) is not I:
            if type(d) is Top or type(d) is Fl:
                return [(t, st.copy()) for _, t in branches] + [(other, st)]
            raise Unsupported(f"switch on {type(d).__name__}")
        if self.ctx.observers:
            self.ctx.emit("branch", frame=fr, bb=bi, discr=d, st=st)
        lo, hi = st.itv[d.vid]
        tlo, thi = self.ctx.int_range(d.ty)
        outs = []
        vals = []
        tagging = (self.ctx.partition_fns is not None and lo == 0 and hi == 1 and len(st.part) < self.ctx.max_parts_branch
                   and self.ctx.partition_fns(fr.inst) and self.prog.ty(d.ty).tag == "Bool")
        base_part = st.part
        for val, tgt in branches:
            # switch values are the raw bits (u128) of the discriminant type
            if tlo < 0 and val > thi:
                val = val - (1 << self.prog.ty(d.ty).bits())
            vals.append(val)
            if lo <= val <= hi:
                if lo == hi:
                    return [(tgt, st)]
                s2 = st.copy()
                try:
                    self.set_itv(s2, d.vid, val, val)
                    if tagging:
                        s2.part = base_part + ((bi, "br", val),)
                    outs.append((tgt, s2))
                    if self.ctx.observers:
                        self.ctx.emit("edge", frame=fr, bb=bi, target=tgt, st=s2, discr=d)
                except Diverge:
                    pass
        # otherwise: none of the listed values
        s2 = st if not outs else st.copy()
        l2, h2 = lo, hi
        vs = set(vals)
        while l2 <= h2 and l2 in vs:
            l2 += 1
        while l2 <= h2 and h2 in vs:
            h2 -= 1
        if l2 > h2:
            return outs
        if h2 - l2 < 4096 and all(x in vs for x in range(l2, h2 + 1)):
            return outs
        try:
            self.set_itv(s2, d.vid, l2, h2)
            if tagging:
                s2.part = base_part + ((bi, "br", "else"),)
            outs.append((other, s2))
            if self.ctx.observers:
                self.ctx.emit("edge", frame=fr, bb=bi, target=other, st=s2, discr=d)
        except Diverge:
            pass
        return outs

    def exec_assert(self, st, fr, bi, tv):
        c = self.operand(st, fr, tv["cond"])
        exp = 1 if tv["expected"] else 0
        mk, mv = kind_of(tv["msg"])
        ctx = self.ctx
        if mk in ("NullPointerDereference", "MisalignedPointerDereference"):
            ctx.obligation("ptrcheck", fr, bi, True, "reference-derived pointer (type system)", mk)
            return [(tv["target"], st)]
        if type(c) is not I:
            ctx.obligation(mk, fr, bi, False, "assert condition not tracked", "?")
            return [(tv["target"], st)]
        lo, hi = st.itv[c.vid]
        ok = (lo == hi == exp)
        never = (lo == hi and lo != exp)
        role, detail = self.assert_text(st, fr, mk, mv)
        if ctx.observers:
            ctx.emit("assert", frame=fr, bb=bi, kind=mk, ok=ok, st=st, msg=mv)
        ctx.obligation(mk, fr, bi, ok, detail, role)
        if never:
            return []
        if not ok:
            try:
                self.set_itv(st, c.vid, exp, exp)
            except Diverge:
                return []
        return [(tv["target"], st)]

    def assert_text(self, st, fr, mk, mv):
        def rng(op):
            try:
                v = self.operand(st, fr, op)
                if type(v) is I:
                    lo, hi = st.itv[v.vid]
                    return f"[{lo},{hi}]"
            except Exception:
                pass
            return "?"
        if mk == "BoundsCheck":
            role = f"{self.role_of(fr, mv['index'])} < {self.role_of(fr, mv['len'])}"
            return role, f"index {rng(mv['index'])} vs len {rng(mv['len'])}"
        if mk == "Overflow":
            role = f"{mv[0]}({self.role_of(fr, mv[1])}, {self.role_of(fr, mv[2])})"
            return role, f"{mv[0]} on {rng(mv[1])} and {rng(mv[2])}"
        if mk in ("OverflowNeg", "DivisionByZero", "RemainderByZero"):
            return f"{mk}({self.role_of(fr, mv)})", f"operand {rng(mv)}"
        return mk, ""

    # ======================================================================== calls
    def exec_call(self, st, fr, bi, tv):
        ctx = self.ctx
        to = fr.body.calls.get(bi)
        args = []
        for a in tv["args"]:
            try:
                args.append(self.operand(st, fr, a))
            except Unsupported as e:
                ctx.emit("unsupported", fn=fr.inst.name, where=fr.body.span_of(bi), what=str(e))
                args.append(Top(None))
        dest = tv["destination"]
        dest_ty = self.place_ty(fr, dest) if dest["projection"] else fr.body.locals[dest["local"]]["ty"]
        if to is None:
            # indirect call (fn pointer / dyn): unknown callee
            ctx.obligation("indirect-call", fr, bi, False, "callee not resolved", self.role_of(fr, tv["func"]))
            outs = [(ctx.top_value(st, dest_ty), st)]
        else:
            callee = self.prog.inst[to]
            if ctx.observers:
                ctx.emit("call", frame=fr, bb=bi, callee=callee, args=args, st=st, tv=tv)
            # a closure invoked as `f(x)` is a call of Fn*::call with the arguments packed in a tuple (rust-call ABI)
            ctx._rust_call = False
            if "{closure" in callee.name:
                try:
                    fk, fv_ = kind_of(tv["func"])
                    fty = self.prog.ty(fv_["const_"]["ty"]).s if fk == "Constant" else ""
                except Exception:
                    fty = ""
                ctx._rust_call = bool(re.search(r"as (std|core)::ops::(Fn|FnMut|FnOnce)<", fty))
            outs = self.call(st, fr, bi, callee, args, dest_ty)
            ctx._rust_call = False
        res = []
        for ret, s2 in outs:
            if tv["target"] is None:
                continue
            key, proj = self.resolve(s2, fr, dest)
            self.store_at(s2, key, proj, ret)
            if ctx.observers:
                ctx.emit("ret", frame=fr, bb=bi, callee=(self.prog.inst[to] if to is not None else None), value=ret, st=s2, args=args)
            res.append((tv["target"], s2))
        if len(res) > 1:
            # several outcomes of one call (e.g. Some/None of an iterator step): run the (single
            # predecessor) continuation block separately for each, so that the switch on the result
            # keeps the correlation with the rest of the state
            tgt = tv["target"]
            npred = len(fr.body.pred[tgt])
            if npred == 1 and tgt != bi:
                out2 = []
                for _, s2 in res:
                    try:
                        out2.extend(self.exec_block(s2, fr, tgt))
                    except Diverge:
                        pass
                return out2
        return res

    def call(self, st, fr, bi, callee, args, dest_ty):
        """-> list of (return value, state)"""
        ctx = self.ctx
        name = callee.name
        if ctx.observers:
            ctx.emit("enter", frame=fr, bb=bi, callee=callee, args=args, st=st)
        # explicit panics
        if is_panic_fn(name):
            ctx.obligation("panic", fr, bi, False, f"call to {name} is abstractly reachable", name.split("::")[-1])
            return []
        m = ctx.models.lookup(callee)
        if m is not None:
            ctx.models_used[m.__name__] = ctx.models_used.get(m.__name__, 0) + 1
            try:
                outs = m(self, st, fr, bi, callee, args, dest_ty)
                if outs is not None:
                    return outs
            except Unsupported as e:
                ctx.emit("unsupported", fn=fr.inst.name, where=fr.body.span_of(bi), what=f"model {m.__name__}: {e}")
            except (KeyError, TypeError, AttributeError, IndexError, ValueError) as e:
                # a model met a value shape it was not written for: the call is treated as not modelled (never as a pass)
                ctx.emit("unsupported", fn=fr.inst.name, where=fr.body.span_of(bi), what=f"model {m.__name__} failed: {type(e).__name__}: {e}")
        if callee.has_body and callee.body is not None and not (ctx.no_inline and ctx.no_inline(callee)):
            inline = callee.local or callee.nblocks <= 14 or (ctx.hooks.get("inline") and ctx.hooks["inline"](callee))
            if inline and ctx.stack.count(callee.id) < ctx.hooks.get("rec_depth", 1) and len(ctx.stack) < ctx.max_depth:
                saved = st.copy()
                n_obl = len(ctx.obl)
                try:
                    return self.run(callee, args, st, fr, bi)
                except Unsupported as e:
                    ctx.emit("unsupported", fn=callee.name, where="body", what=str(e))
                    del ctx.obl[n_obl:]
                    st = saved
        return self.unknown_call(st, fr, bi, callee, args, dest_ty)

    def unknown_call(self, st, fr, bi, callee, args, dest_ty):
        ctx = self.ctx
        ctx.unmodelled[callee.name] = ctx.unmodelled.get(callee.name, 0) + 1
        may_panic = ctx.hooks["may_panic"](callee) if "may_panic" in ctx.hooks else True
        ctx.obligation("unmodelled-call", fr, bi, not may_panic,
                       f"external callee {callee.name} is not modelled" + (" and its cone reaches a logic-panic leaf" if may_panic else " (cone has no logic-panic leaf)"),
                       callee.name)
        # havoc everything reachable through mutable pointers
        for a in args:
            self.havoc_through(st, a)
        return [(ctx.top_value(st, dest_ty), st)]

    def havoc_through(self, st, a, depth=0):
        if type(a) is Pt and a.key is not None and a.mut:
            try:
                old = self.load(st, a.key, a.proj)
                new = self.havoc_value(st, old)
                self.store_at_strong(st, a.key, a.proj, new)
            except (Unsupported, Diverge):
                st.store.pop(a.key, None)
        elif type(a) is Ag and depth < 3:
            for x in a.f:
                self.havoc_through(st, x, depth + 1)

    def store_at_strong(self, st, key, proj, val):
        if not proj:
            st.store[key] = val
        else:
            self.store_at(st, key, proj, val)

    def havoc_value(self, st, v):
        """same shape, unknown contents"""
        ctx = self.ctx
        t = type(v)
        if t is I:
            return ctx.top_int(st, v.ty)
        if t is Fl:
            return Fl(-INF, INF, True)
        if t is Ag:
            return Ag(self.havoc_value(st, x) for x in v.f)
        if t is En:
            return En({k: tuple(self.havoc_value(st, x) for x in p) for k, p in v.vs.items()})
        if t is Sq:
            return Sq(self.havoc_value(st, self._flat_elem(st, v)), v.len, None, None)
        if t is Pt:
            return Pt(None)
        if t is Md:
            return Md(v.kind, {k: (self.havoc_value(st, x) if isinstance(x, (I, Fl, Ag, En, Sq, Pt, Md)) else x) for k, x in v.d.items()})
        return v

    # ======================================================================== running a body
    def run(self, inst, args, st, parent_fr=None, site=None):
        """analyse `inst` on abstract `args` in state `st`; -> [(ret, st')] (one joined outcome)"""
        ctx = self.ctx
        body = ctx.body(inst)
        # closures called through Fn* traits: spread the argument tuple
        rust_call = getattr(ctx, "_rust_call", False)
        ctx._rust_call = False
        if (rust_call and body.arg_count == 2 and len(args) == 2 and type(args[1]) is Ag and len(args[1].f) == 1 and "{closure" in inst.name
                and self.prog.ty(body.locals[2]["ty"]).tag != "Tuple"):
            # one-parameter closure called through Fn*::call: the argument arrives as a 1-tuple
            args = [args[0], args[1].f[0]]
        if body.arg_count != len(args):
            if len(args) == 2 and type(args[1]) is Ag and body.arg_count == 1 + len(args[1].f):
                args = [args[0]] + list(args[1].f)
            elif len(args) == 2 and args[1] is UNIT and body.arg_count == 1:
                args = [args[0]]
            else:
                raise Unsupported(f"arity mismatch calling {inst.name}: {len(args)} vs {body.arg_count}")
        # memoisation for pure scalar functions
        mkey = None
        deep = bool(ctx.summary_fns and ctx.summary_fns(inst))
        # closures are not memoised: rules observe the calls made inside them (a hit would skip those events)
        sig = None if (st.res or getattr(ctx, 'no_memo', 0) or "{closure" in inst.name) else self.sig_of(st, args, deep)
        if sig is not None:
            mkey = (inst.id, sig)
            hit = ctx.memo.get(mkey)
            if hit is not None:
                tmpl, tst, obls, muts = hit[:4]
                alias = hit[4] if len(hit) > 4 else {}
                if ctx.quiet == 0:
                    for o in obls:
                        o.quiet = False
                if tmpl is None:
                    return []
                for (ai, mt) in muts:
                    p_ = args[ai]
                    self.store_at_strong(st, p_.key, p_.proj, self.instantiate(st, mt, tst))
                ctx.memo_hits = getattr(ctx, "memo_hits", 0) + 1
                # result integers that ARE argument integers (a conversion that returns its argument) keep that identity
                pre = {tv: args[ai].vid for tv, ai in alias.items() if ai < len(args) and type(args[ai]) is I}
                return [(self.instantiate(st, tmpl, tst, pre), st)]
        fid = ctx.frame_id(parent_fr.id if parent_fr else 0, site, inst.id)
        fr = Frame(fid, inst, body, parent_fr, (parent_fr.depth + 1) if parent_fr else 0)
        for i, a in enumerate(args):
            st.store[(fid, i + 1)] = a
        ctx.stack.append(inst.id)
        ctx.analysed_fns[inst.name] = ctx.analysed_fns.get(inst.name, 0) + 1
        n_obl0 = len(ctx.obl)
        try:
            big = ctx.path_mode_fns is not None and ctx.path_mode_fns(inst)
            budget = ctx.path_budget if big else self.default_path_steps
            out = self.run_mixed(fr, st, budget)
            if out is None:
                if mkey:
                    ctx.memo[mkey] = (None, None, ctx.obl[n_obl0:], [])
                return []
            if isinstance(out, MultiRet):
                res = []
                jf = getattr(ctx, "joined_fids", ())
                for rst in out:
                    m = {}
                    for v in (rst.itv if fid in jf else ()):
                        if type(v) is tuple and v and v[0] == "j" and type(v[1]) is tuple and ((v[1][0] == "ret" and v[1][1] == fid) or v[1][0] == fid):
                            m[v] = ctx.fresh()
                    if m:
                        rename_bulk(rst, m)
                    ret = rst.store.get((fid, 0), UNIT)
                    for k in [k for k in rst.store if k[0] == fid]:
                        del rst.store[k]
                    res.append((ret, rst))
                if fid in jf:
                    jf.discard(fid)
                return res
            rst = out
            # join values created inside this activation carry names derived from the frame id; a second
            # activation from the same call site would reuse them and alias values that are still alive
            # (results collected in a vector, heap cells written through &mut): give them fresh names now
            m = {}
            jf = getattr(ctx, "joined_fids", ())
            for v in (rst.itv if fid in jf else ()):
                if type(v) is tuple and v and v[0] == "j" and type(v[1]) is tuple and ((v[1][0] == "ret" and v[1][1] == fid) or v[1][0] == fid):
                    m[v] = ctx.fresh()
            if m:
                rename_bulk(rst, m)
            if fid in jf:
                jf.discard(fid)
            ret = rst.store.get((fid, 0), UNIT)
            for k in [k for k in rst.store if k[0] == fid]:
                del rst.store[k]
            if mkey:
                snap = self.snapshot(rst, ret)
                muts = []
                ok_m = True
                for ai, a in enumerate(args):
                    if type(a) is Pt and a.mut and a.key is not None:
                        try:
                            mv = self.load(rst, a.key, a.proj)
                            self._sig(rst, mv, True, 1)
                            self.snapshot(rst, mv, snap)
                            muts.append((ai, mv))
                        except (Unsupported, Diverge):
                            ok_m = False
                if type(ret) is I and ret.vid in rst.prov:
                    ok_m = False        # the result's provenance (comparison / all-any) must reach the caller
                if ok_m:
                    try:
                        self._sig(rst, ret, True, 0)
                        argv = {a.vid: ai for ai, a in enumerate(args) if type(a) is I}
                        alias = {i.vid: argv[i.vid] for _, i in iter_ints(ret) if i.vid in argv}
                        ctx.memo[mkey] = (ret, snap, ctx.obl[n_obl0:], muts, alias)
                    except Unsupported:
                        pass
            return [(ret, rst)]
        finally:
            ctx.stack.pop()

    def sig_of(self, st, args, deep=False):
        try:
            keys = [a.key for a in args if type(a) is Pt]
            if len(keys) != len(set(keys)):
                return None
            return tuple(self._sig(st, a, deep) for a in args)
        except (Unsupported, Diverge):
            return None

    def _sig(self, st, v, deep=False, depth=0):
        t = type(v)
        if t is I:
            return ("i", v.ty, st.itv[v.vid], st.taint.get(v.vid))
        if t is Fl:
            if isinstance(v.tag, tuple):
                # compound expression trees: hashing them is linear in the (tree-expanded) size; such calls are not memoised
                raise Unsupported("not memoisable")
            return ("f", v.lo, v.hi, v.nan, v.tag)
        if t is Ag:
            return ("a",) + tuple(self._sig(st, x, deep, depth + 1) for x in v.f)
        if deep and depth < 4:
            if t is Sq:
                if v.head and len(v.head) > 8:
                    raise Unsupported("not memoisable")
                return ("s", self._sig(st, v.elem, deep, depth + 1) if v.elem is not BOT else "bot", st.itv[v.len.vid], v.data,
                        tuple((k, self._sig(st, h, deep, depth + 1)) for k, h in sorted((v.head or {}).items())))
            if t is En:
                return ("e",) + tuple((k, tuple(self._sig(st, x, deep, depth + 1) for x in p)) for k, p in sorted(v.vs.items()))
            if t is Pt and v.key is not None:
                tgt = self.load(st, v.key, v.proj)
                return ("p", v.mut, self._sig(st, tgt, deep, depth + 1))
        raise Unsupported("not memoisable")

    def snapshot(self, st, v, out=None):
        out = {} if out is None else out
        for _, i in iter_ints(v):
            out[i.vid] = (st.itv[i.vid], st.taint.get(i.vid))
        return out

    def instantiate(self, st, tmpl, snap, pre=None):
        m = dict(pre or {})

        def f(i):
            if i.vid not in m:
                (lo, hi), taint = snap[i.vid]
                m[i.vid] = self.ctx.mk_int(st, lo, hi, i.ty, taint=taint).vid
            return I(m[i.vid], i.ty)
        return map_value(tmpl, f)

    # ------------------------------------------------------------------ engine
    def run_mixed(self, fr, st, budget):
        """follow the single feasible path while branches are determinate (no joins, exact loop
        unrolling); at the first indeterminate branch (or when the budget is exhausted) continue
        with the classic worklist fixpoint with joins and widening."""
        bi = 0
        steps = 0
        base = len(st.part)
        ctx = self.ctx
        steps0 = ctx.steps
        nested_cap = self.nested_path_steps if budget == self.default_path_steps else None
        seen = {}
        while True:
            if nested_cap is not None:
                c = seen[bi] = seen.get(bi, 0) + 1
                if c > 8 and ctx.steps - steps0 > nested_cap:
                    # an exactly unrolled loop whose body is expensive (it has consumed nested_cap block executions in
                    # callees): continue with the join-based fixpoint instead of unrolling up to the own-step budget
                    ctx.nested_switches = getattr(ctx, "nested_switches", 0) + 1
                    if os.environ.get("FALCON_DEBUG_NESTED"):
                        sys.stderr.write(f"[nested-cap] {fr.inst.name} block {bi} after {ctx.steps - steps0} nested steps\n")
                    return self.run_join(fr, [(bi, st)], base)
            try:
                outs = self.exec_block(st, fr, bi, pathmode=True)
            except Diverge:
                return None
            if not outs:
                return None
            if len(outs) > 1:
                return self.run_join(fr, outs, base)
            bi, st = outs[0]
            if bi == RET:
                st.part = st.part[:base]
                return st
            steps += 1
            if steps % 48 == 0:
                gc_state(st, self.ctx.pins)
            if steps > budget:
                return self.run_join(fr, [(bi, st)], base)

    def run_join(self, fr, seeds, part0=0):
        ctx = self.ctx
        body = fr.body
        body.dominators()
        rpo_idx = {b: i for i, b in enumerate(body.rpo)}
        nb = len(body.blocks)
        npred = [len([p for p in body.pred[b] if p in rpo_idx]) for b in range(nb)]
        loop_heads = set()
        for b in body.rpo:
            for s in body.succ[b]:
                if s in rpo_idx and rpo_idx[s] <= rpo_idx[b]:
                    loop_heads.add(s)
        thresholds = self.thresholds_of(body)
        extra = set()
        for _, s0 in seeds:
            for (lo_, hi_) in s0.itv.values():
                for x in (lo_, hi_):
                    if x not in (INF, -INF) and abs(x) < (1 << 40):
                        extra.update((x - 1, x, x + 1))
        if extra:
            thresholds = sorted(set(thresholds) | extra)
        import fv.absint as _A
        saved_important = _A.IMPORTANT
        _A.IMPORTANT = sorted(extra)
        try:
            return self._run_join(fr, seeds, part0, thresholds)
        finally:
            _A.IMPORTANT = saved_important

    def _run_join(self, fr, seeds, part0, thresholds):
        ctx = self.ctx
        body = fr.body
        rpo_idx = {b: i for i, b in enumerate(body.rpo)}
        nb = len(body.blocks)
        npred = [len([p for p in body.pred[b] if p in rpo_idx]) for b in range(nb)]
        loop_heads = set()
        for b in body.rpo:
            for s in body.succ[b]:
                if s in rpo_idx and rpo_idx[s] <= rpo_idx[b]:
                    loop_heads.add(s)
        depth = self.loop_depth(body)
        in_states = {}
        head_plen = {}
        visits = {}
        work = []
        queued = set()
        ret_state = None
        iters = 0

        peel = ctx.partition_fns is not None and ctx.partition_fns(fr.inst)

        def retag(succ, s2, src):
            """partition tags at a loop head: drop the tags created inside this loop, then (loop
            peeling) mark whether the head is reached from outside or through a back edge"""
            inner = body._loop_bodies.get(succ, ())
            prev_it = [t[2] for t in s2.part if len(t) == 3 and t[0] == succ and t[1] == "it"]
            np_ = tuple(t for t in s2.part if not (len(t) == 3 and t[0] in inner))
            uf = ctx.hooks.get("unroll")
            K = uf(fr, succ) if uf else 0
            if K:
                back = src is not None and src in inner
                k_ = min((prev_it[0] + 1) if (back and prev_it) else (1 if back else 0), K)
                np_ = np_ + ((succ, "it", k_),)
            pf = ctx.hooks.get("peel_filter")
            if peel and (pf is None or pf(fr, succ)):
                np_ = np_ + ((succ, "lp", "iter" if (src is not None and src in inner) else "first"),)
            if np_ != s2.part:
                s2.part = np_

        def arrive(succ, s2, force_join=False, src=None):
            nonlocal ret_state
            if succ == RET:
                s2.part = s2.part[:part0]
                ret_state = s2 if ret_state is None else join_states(ctx, ret_state, s2, ("ret", fr.id))
                return
            if succ in loop_heads and (s2.part or peel or ctx.hooks.get('unroll')):
                retag(succ, s2, src)
            sk = (succ, s2.part)
            old = in_states.get(sk)
            if old is None or (npred[succ] <= 1 and succ not in loop_heads and not force_join):
                if old is None:
                    gc_state(s2, ctx.pins)
                in_states[sk] = s2
                changed = True
            else:
                v = visits.get(sk, 0) + 1
                visits[sk] = v
                widen = succ in loop_heads and v > ctx.widen_after
                tagk = (fr.id, succ)
                stale = {x: ctx.fresh() for x in s2.itv if type(x) is tuple and len(x) >= 2 and x[0] == "j" and x[1] == tagk}
                rename_bulk(s2, stale)
                new = join_states(ctx, old, s2, (fr.id, succ), widen=widen, thresholds=thresholds)
                gc_state(new, ctx.pins)
                changed = not same_state(old, new)
                if changed:
                    in_states[sk] = new
                    if succ in loop_heads:
                        # a new iteration of this loop: inner loops start their widening delay afresh
                        inner = body._loop_bodies.get(succ, ())
                        for k2 in list(visits):
                            if k2[0] != succ and k2[0] in inner and k2[0] in loop_heads:
                                visits[k2] = 0
                if ctx.log and ctx.log(fr):
                    self.debug_state(fr, succ, v, widen, new, s2)
            if changed and sk not in queued:
                heapq.heappush(work, ((-depth.get(succ, 0), rpo_idx[succ]), next(self._tick), sk))
                queued.add(sk)

        ctx.quiet += 1
        try:
            for succ, s2 in seeds:
                arrive(succ, s2.copy(), force_join=True)
            while work:
                _, _, sk = heapq.heappop(work)
                queued.discard(sk)
                bi = sk[0]
                iters += 1
                if iters > 400000:
                    raise Unsupported("fixpoint did not converge")
                st = in_states[sk].copy()
                try:
                    outs = self.exec_block(st, fr, bi)
                except Diverge:
                    outs = []
                merged = {}
                for succ, s2 in outs:
                    k2 = (succ, s2.part)
                    if k2 in merged:
                        merged[k2] = join_states(ctx, merged[k2], s2, (fr.id, bi, "out", succ))
                    else:
                        merged[k2] = s2
                for (succ, _), s2 in merged.items():
                    arrive(succ, s2, src=bi)
        finally:
            ctx.quiet -= 1
        # descending passes from the post-fixpoint: every block once, loop heads take their stored
        # state and are then replaced by the join of what arrived (no widening).  The last pass is
        # the one whose obligations count.
        heads = {sk: stt for sk, stt in in_states.items() if sk[0] in loop_heads}
        npass = 2 if heads else 1
        final_ret = None
        for pno in range(npass):
            last = pno == npass - 1
            if not last:
                ctx.quiet += 1
            try:
                arrivals = {}
                pq = []
                done = set()
                ret_acc = [None]

                edges_in = {}

                def arr(succ, s2, pfx):
                    if succ == RET:
                        full = s2.part
                        s2.part = s2.part[:part0]
                        ret_edges[(pfx, full)] = s2
                        return
                    if succ in loop_heads and (s2.part or peel or ctx.hooks.get('unroll')):
                        retag(succ, s2, pfx if isinstance(pfx, int) else None)
                    sk = (succ, s2.part)
                    per = edges_in.setdefault(sk, {})
                    old = per.get(pfx)
                    if old is not None and same_state(old, s2):
                        return
                    per[pfx] = s2
                    if sk in heads and sk in done:
                        return          # heads are processed once per pass, with their stored state
                    done.discard(sk)
                    if sk not in [x[2] for x in pq]:
                        heapq.heappush(pq, (rpo_idx[succ], next(self._tick), sk))

                def merged_in(sk):
                    per = edges_in[sk]
                    acc = None
                    for pfx in sorted(per, key=str):
                        s2 = per[pfx].copy()
                        if acc is None:
                            acc = s2
                        else:
                            tagk = (fr.id, sk[0])
                            stale = {x: ctx.fresh() for x in s2.itv if type(x) is tuple and len(x) >= 2 and x[0] == "j" and x[1] == tagk}
                            rename_bulk(s2, stale)
                            acc = join_states(ctx, acc, s2, (fr.id, sk[0]))
                    return acc
                ret_edges = {}
                for n_seed, (succ, s2) in enumerate(seeds):
                    arr(succ, s2.copy(), ("seed", n_seed))
                guard = 0
                while pq:
                    _, _, sk = heapq.heappop(pq)
                    if sk in done:
                        continue
                    done.add(sk)
                    guard += 1
                    if guard > 200000:
                        raise Unsupported("descending pass too long")
                    bi = sk[0]
                    if sk in heads:
                        st = heads[sk].copy()
                    else:
                        st = merged_in(sk)
                    try:
                        outs = self.exec_block(st, fr, bi)
                    except Diverge:
                        outs = []
                    # several outcomes towards the same successor: one edge state
                    mo = {}
                    for succ, s2 in outs:
                        k2 = (succ, s2.part)
                        mo[k2] = s2 if k2 not in mo else join_states(ctx, mo[k2], s2, (fr.id, bi, "out", succ))
                    for (succ, _), s2 in mo.items():
                        arr(succ, s2, bi)
                for sk in list(heads):
                    if sk in edges_in:
                        nh = merged_in(sk)
                        gc_state(nh, ctx.pins)
                        heads[sk] = nh
                final_ret = None
                groups = {}
                split = ctx.hooks.get("split_bool_ret")
                split = bool(split and split(fr.inst) and self.prog.ty(fr.body.locals[0]["ty"]).tag == "Bool")
                for kk in sorted(ret_edges, key=str):
                    s2 = ret_edges[kk]
                    if split:
                        rv = s2.store.get((fr.id, 0))
                        c = s2.const(rv) if type(rv) is I else None
                        groups[c] = s2.copy() if c not in groups else join_states(ctx, groups[c], s2.copy(), ("ret", fr.id, c))
                    final_ret = s2 if final_ret is None else join_states(ctx, final_ret, s2, ("ret", fr.id))
            finally:
                if not last:
                    ctx.quiet -= 1
        if split and len(groups) == 2 and None not in groups:
            return MultiRet([groups[k] for k in sorted(groups)])
        return final_ret

    def debug_state(self, fr, bb, visit, widen, st, incoming):
        names = fr.body.names
        out = []
        for l, nm in sorted(names.items()):
            for tag, s in (("", st), ("in:", incoming)):
                v = s.store.get((fr.id, l))
                if type(v) is I:
                    fs = {k: c for k, c in s.facts.items() if k[0] == v.vid or k[1] == v.vid}
                    lens = []
                    for kk, vv in s.store.items():
                        if type(vv) is Md and "len" in vv.d and type(vv.d["len"]) is I:
                            lens.append(s.facts.get((v.vid, vv.d["len"].vid)))
                    out.append(f"{tag}{nm}={s.itv[v.vid]}{' F' + str(len(fs)) if fs else ''}{' rel' + str(lens) if nm == 'index' else ''}")
        import os
        if os.environ.get("DBG_LEN"):
            out = []
            for tag, s in (("", st), ("in:", incoming)):
                sqs = [(k, v) for k, v in s.store.items() if type(v) is Sq and k[0] == fr.id]
                rngs = [(k, v) for k, v in s.store.items() if type(v) is Ag and k[0] == fr.id and len(v.f) == 2 and all(type(x) is I for x in v.f)]
                for k, v in sqs:
                    for k2, r in rngs:
                        out.append(f"{tag}len{k[1]}={s.itv[v.len.vid]} start{k2[1]}={s.itv[r.f[0].vid]} len-start<={s.bound(v.len.vid, r.f[0].vid)} start-len<={s.bound(r.f[0].vid, v.len.vid)}")
        print(f"  [join bb{bb} visit {visit}{' WIDEN' if widen else ''}] " + " ".join(out))

    def thresholds_of(self, body):
        c = getattr(body, "_thresholds", None)
        if c is None:
            s = {0, 1, -1}
            from .facts import const_of

            def visit(o):
                if isinstance(o, dict):
                    if "Constant" in o and isinstance(o["Constant"], dict) and "const_" in o["Constant"]:
                        cv = const_of(self.prog, o)
                        if cv and isinstance(cv[1], int) and not isinstance(cv[1], bool):
                            for d in (-1, 0, 1):
                                s.add(cv[1] + d)
                        return
                    for v in o.values():
                        visit(v)
                elif isinstance(o, list):
                    for v in o:
                        visit(v)
            for bb in body.blocks:
                visit(bb["statements"])
                visit(bb["terminator"]["kind"])
            c = sorted(s)
            body._thresholds = c
        return c
