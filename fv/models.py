"""E2 model table: abstract semantics of the std / bit-vec / itertools / num / rand / sha3 functions the
crate calls.  This table is part of the trusted base; the evidence lists the models a run used."""
import re

from .absint import (tl, EMPTY, pinned, I, Fl, Ag, En, Sq, Pt, Top, Md, UNIT, BOT, Bot, Unsupported, Diverge, INF, ISIZE_MAX, USIZE_MAX, map_value)

NONE, SOME = 0, 1
OK, ERR = 0, 1


class Models:
    def __init__(self, ctx):
        self.ctx = ctx
        self.table = []   # (compiled regex, fn)
        self.cache = {}
        self.types = []   # (predicate(tyinfo) , constructor)

    def add(self, pattern, fn):
        self.table.append((re.compile(pattern), fn))

    def lookup(self, inst):
        k = inst.id
        if k in self.cache:
            return self.cache[k]
        r = None
        for rx, fn in self.table:
            if rx.search(inst.name):
                r = fn
                break
        self.cache[k] = r
        return r

    def type_model(self, t):
        if t.tag != "Adt" or not t.adt:
            return None
        n = t.adt["name"]
        for pred, cons in self.types:
            if pred(n):
                return cons
        return None


def generic_args(t):
    return [a["Type"] for a in t.arg[1] if isinstance(a, dict) and "Type" in a]


# ---------------------------------------------------------------------------------- type models
def top_vec(ctx, st, t, taint):
    et = generic_args(t)[0]
    return Sq(ctx.top_value(st, et, 1, taint), ctx.mk_int(st, 0, ISIZE_MAX, ctx.usize_ty()))


def top_bitvec(ctx, st, t, taint):
    return Md("bitvec", {"len": ctx.mk_int(st, 0, ISIZE_MAX, ctx.usize_ty())})


def top_opaque(kind):
    def f(ctx, st, t, taint):
        return Md(kind, {})
    return f


# ---------------------------------------------------------------------------------- helpers
def deref(E, st, v):
    """follow a pointer value to the value it points to"""
    if type(v) is Pt:
        if v.key is None:
            raise Unsupported("unknown pointer")
        return E.load(st, v.key, v.proj)
    return v


def deref2(E, st, v):
    while type(v) is Pt:
        v = deref(E, st, v)
    return v


def write_through(E, st, p, val):
    if type(p) is not Pt or p.key is None:
        raise Unsupported("write through unknown pointer")
    E.store_at_strong(st, p.key, p.proj, val)


def option(some=None):
    if some is None:
        return En({NONE: ()})
    return En({SOME: (some,)})


def usize(E, st, lo, hi=None):
    return E.ctx.mk_int(st, lo, lo if hi is None else hi, E.ctx.usize_ty())


def as_seq(E, st, v):
    v = deref2(E, st, v)
    if type(v) is Sq:
        return v
    raise Unsupported(f"expected sequence, got {type(v).__name__}")


def elem_ty_of(E, ty):
    """element type of Vec<T>/[T]/&[T]/[T;N]"""
    t = E.prog.ty(ty)
    while t.tag in ("Ref", "RawPtr"):
        t = E.prog.ty(t.arg[1] if t.tag == "Ref" else t.arg[0])
    if t.tag == "Adt":
        return generic_args(t)[0]
    if t.tag == "Array":
        return t.arg[0]
    if t.tag == "Slice":
        return t.arg
    raise Unsupported(f"element type of {t.s}")


def ret1(v, st):
    return [(v, st)]


def obligation(E, fr, bi, kind, ok, detail, role):
    E.ctx.obligation(kind, fr, bi, ok, detail, role)


def lt_proved(E, st, a, b):
    """a < b provable (I values)"""
    return E.decide_cmp(st, "Lt", a, b) is True


def le_proved(E, st, a, b):
    return E.decide_cmp(st, "Le", a, b) is True


# ---------------------------------------------------------------------------------- Vec / slices
def m_vec_new(E, st, fr, bi, callee, args, dest_ty):
    return ret1(Sq(BOT, usize(E, st, 0), None, None), st)


def m_vec_with_capacity(E, st, fr, bi, callee, args, dest_ty):
    return m_vec_new(E, st, fr, bi, callee, args, dest_ty)


def empty_like(E, st, s):
    return s


def m_vec_len(E, st, fr, bi, callee, args, dest_ty):
    s = as_seq(E, st, args[0])
    return ret1(s.len, st)


def m_is_empty(E, st, fr, bi, callee, args, dest_ty):
    s = deref2(E, st, args[0])
    ln = s.len if type(s) is Sq else s.d["len"]
    z = usize(E, st, 0)
    r = E.decide_cmp(st, "Eq", ln, z)
    return ret1(E.mkbool(st, r, ("cmp", (ln.vid, z.vid), "Eq")), st)


def m_vec_push(E, st, fr, bi, callee, args, dest_ty):
    p = args[0]
    s = as_seq(E, st, p)
    ln = st.const(s.len)
    one = usize(E, st, 1)
    newlen = E.binop(st, "Add", s.len, one, E.ctx.usize_ty(), False)
    if ln == 0 and not s.head:
        new = Sq(args[1], newlen, {0: args[1]}, None)
    elif ln is not None and ln < max(64, E.ctx.hooks.get("keep_heads_max", 64)) and s.head and len(s.head) == ln:
        h = dict(s.head)
        h[ln] = args[1]
        new = Sq(E.join_vals(st, s.elem, args[1]), newlen, h, None)
    else:
        new = Sq(E.join_vals(st, E._flat_elem(st, s), args[1]), newlen, None, None)
    write_through(E, st, p, new)
    return ret1(UNIT, st)


def m_vec_extend_from_slice(E, st, fr, bi, callee, args, dest_ty):
    """Vec::extend_from_slice(&mut self, other): self becomes self ++ other (distinguished elements kept while both
    parts are short and fully distinguished)"""
    p = args[0]
    s = as_seq(E, st, p)
    o = as_seq(E, st, args[1])
    usz = E.ctx.usize_ty()
    newlen = E.binop(st, "Add", s.len, o.len, usz, False)
    ls, lo = st.const(s.len), st.const(o.len)
    heads = None
    if ls is not None and lo is not None and ls + lo <= 64 and (ls == 0 or (s.head and len(s.head) == ls)) and (lo == 0 or (o.head and len(o.head) == lo)):
        heads = {i: s.head[i] for i in range(ls)}
        for i in range(lo):
            heads[ls + i] = o.head[i]
    elif s.head:
        heads = dict(s.head)              # distinguished elements of the prefix keep their positions
    es = E._flat_elem(st, s) if st.hi(s.len) > 0 else None
    eo = E._flat_elem(st, o) if st.hi(o.len) > 0 else None
    if es is None or (type(es) is Bot):
        elem = eo if eo is not None else s.elem
    elif eo is None or (type(eo) is Bot):
        elem = es
    else:
        elem = E.join_vals(st, es, eo)
    write_through(E, st, p, Sq(elem, newlen, heads or None, None))
    return ret1(UNIT, st)


def m_from_elem(E, st, fr, bi, callee, args, dest_ty):
    # vec![e; n]
    n = st.const(args[1]) if type(args[1]) is I else None
    if n is not None and 0 < n <= max(64, E.ctx.hooks.get("keep_heads_max", 64)):
        return ret1(Sq(args[0], args[1], {i: args[0] for i in range(n)}, None), st)
    return ret1(Sq(args[0], args[1], None, None), st)


def m_to_vec(E, st, fr, bi, callee, args, dest_ty):
    s = as_seq(E, st, args[0])
    return ret1(Sq(s.elem, s.len, s.head, s.data), st)


def m_clone_seq(E, st, fr, bi, callee, args, dest_ty):
    v = deref2(E, st, args[0])
    return ret1(v, st)


def m_deref_seq(E, st, fr, bi, callee, args, dest_ty):
    # &Vec<T> -> &[T] ; same object
    p = args[0]
    while type(p) is Pt and p.key is not None:
        v = E.load(st, p.key, p.proj)
        if type(v) is Pt:
            p = v
        else:
            break
    return ret1(p, st)


def m_slice_len(E, st, fr, bi, callee, args, dest_ty):
    return m_vec_len(E, st, fr, bi, callee, args, dest_ty)


def m_index_usize(E, st, fr, bi, callee, args, dest_ty):
    # <Vec<T> as Index<usize>>::index / IndexMut -> &T
    p = args[0]
    while type(p) is Pt and p.key is not None and type(E.load(st, p.key, p.proj)) is Pt:
        p = E.load(st, p.key, p.proj)
    s = as_seq(E, st, p)
    idx = args[1]
    ok = lt_proved(E, st, idx, s.len)
    obligation(E, fr, bi, "BoundsCheck", ok, f"index {st.itv[idx.vid]} vs len {st.itv[s.len.vid]}",
               f"{E.role_of(fr, fr.body.blocks[bi]['terminator']['kind']['Call']['args'][1])} < len({E.role_of(fr, fr.body.blocks[bi]['terminator']['kind']['Call']['args'][0])})")
    if not ok:
        E.assume_cmp(st, "Lt", idx.vid, s.len.vid)
    ety = elem_ty_of(E, fr.body.locals[0]["ty"]) if False else None
    return ret1(Pt(p.key, p.proj + (("i", idx, None),), p.mut), st)


def range_bounds(E, st, r, ln, kind):
    """(lo I, hi_exclusive I) of a range value applied to a sequence of length ln"""
    z = usize(E, st, 0)
    if kind == "Range":
        return r.f[0], r.f[1]
    if kind == "RangeFrom":
        return r.f[0], ln
    if kind == "RangeTo":
        return z, r.f[0]
    if kind == "RangeFull":
        return z, ln
    if kind == "RangeInclusive":
        one = usize(E, st, 1)
        return r.f[0], E.binop(st, "Add", r.f[1], one, E.ctx.usize_ty(), False)
    if kind == "RangeToInclusive":
        one = usize(E, st, 1)
        return z, E.binop(st, "Add", r.f[0], one, E.ctx.usize_ty(), False)
    raise Unsupported(f"range kind {kind}")


def m_index_range(E, st, fr, bi, callee, args, dest_ty):
    m = re.search(r"Index(?:Mut)?<std::ops::(Range\w*)", callee.name) or re.search(r"SliceIndex<.*?> for std::ops::(Range\w*)", callee.name)
    if not m:
        raise Unsupported("range index kind")
    kind = m.group(1)
    p = args[0]
    s = as_seq(E, st, p)
    r = args[1]
    lo, hi = range_bounds(E, st, r, s.len, kind)
    ok1 = le_proved(E, st, lo, hi)
    ok2 = le_proved(E, st, hi, s.len)
    obligation(E, fr, bi, "SliceRange", ok1 and ok2,
               f"range [{st.itv[lo.vid]}, {st.itv[hi.vid]}) of len {st.itv[s.len.vid]}",
               f"{kind} of {E.role_of(fr, fr.body.blocks[bi]['terminator']['kind']['Call']['args'][0])}")
    if not ok1:
        E.assume_cmp(st, "Le", lo.vid, hi.vid)
    if not ok2:
        E.assume_cmp(st, "Le", hi.vid, s.len.vid)
    newlen = E.binop(st, "Sub", hi, lo, E.ctx.usize_ty(), False)
    head = None
    c = st.const(lo)
    if s.head and c is not None:
        head = {k - c: v for k, v in s.head.items() if k >= c and (st.hi(hi) == INF or k < st.hi(hi))}
    data = None
    if s.data is not None and c is not None and st.const(newlen) is not None:
        aid, off, ety, cnt = s.data
        data = (aid, off + c * E.prog.ty(ety).size_bytes(), ety, st.const(newlen))
    sub = Sq(s.elem, newlen, head or None, data)
    key = ("h", "slice", fr.id, bi)
    st.store[key] = sub
    # a view: writes through it do not reach the parent (only immutable views are modelled exactly)
    mut = "IndexMut" in callee.name or "index_mut" in callee.name
    if mut:
        whole = (st.const(lo) == 0 and E.decide_cmp(st, "Eq", hi, s.len) is True)
        if whole:
            q = p
            while type(q) is Pt and q.key is not None and type(E.load(st, q.key, q.proj)) is Pt:
                q = E.load(st, q.key, q.proj)
            return ret1(Pt(q.key, q.proj, True), st)
        q = p
        while type(q) is Pt and q.key is not None and type(E.load(st, q.key, q.proj)) is Pt:
            q = E.load(st, q.key, q.proj)
        # a mutable window into the parent: only copy_from_slice / fill through it are modelled
        return ret1(Md("mslice", {"parent": Pt(q.key, q.proj, True), "lo": lo, "len": newlen}), st)
    return ret1(Pt(key), st)


def m_copy_from_slice(E, st, fr, bi, callee, args, dest_ty):
    """<[T]>::copy_from_slice(&mut self, src): lengths must agree (panic otherwise); element-wise copy"""
    dst, src = args[0], as_seq(E, st, args[1])
    if type(dst) is Md and dst.kind == "mslice":
        parent = as_seq(E, st, dst.d["parent"])
        ok = E.decide_cmp(st, "Eq", dst.d["len"], src.len) is True
        obligation(E, fr, bi, "panic", ok, f"copy_from_slice lengths {st.itv[dst.d['len'].vid]} vs {st.itv[src.len.vid]}", "copy_from_slice len == src.len")
        lo, n = st.const(dst.d["lo"]), st.const(src.len)
        pn = st.const(parent.len)
        phead = parent.head
        if phead is None and pn is not None and pn <= 64:
            phead = {i: parent.elem for i in range(pn)}        # e.g. `[0u8; 16]`: every position holds the repeated element
        if lo is not None and n is not None and phead is not None and src.head and len(src.head) == n:
            h = dict(phead)
            for i in range(n):
                h[lo + i] = src.head[i]
            new = Sq(E.join_vals(st, E._flat_elem(st, parent), E._flat_elem(st, src)), parent.len, h, None)
        else:
            new = Sq(E.join_vals(st, E._flat_elem(st, parent), E._flat_elem(st, src)), parent.len, None, None)
        write_through(E, st, dst.d["parent"], new)
        return ret1(UNIT, st)
    d = as_seq(E, st, dst)
    ok = E.decide_cmp(st, "Eq", d.len, src.len) is True
    obligation(E, fr, bi, "panic", ok, f"copy_from_slice lengths {st.itv[d.len.vid]} vs {st.itv[src.len.vid]}", "copy_from_slice len == src.len")
    write_through(E, st, dst, Sq(src.elem, d.len, src.head, None))
    return ret1(UNIT, st)


def mslice_write(E, st, dst, src):
    """write sequence `src` (same length as the window) through the mutable window `dst` into its parent"""
    parent = as_seq(E, st, dst.d["parent"])
    lo, n = st.const(dst.d["lo"]), st.const(src.len)
    pn = st.const(parent.len)
    phead = parent.head
    if phead is None and pn is not None and pn <= 64:
        phead = {i: parent.elem for i in range(pn)}        # e.g. `[0u8; 16]`: every position holds the repeated element
    if lo is not None and n is not None and phead is not None and src.head and len(src.head) == n:
        h = dict(phead)
        for i in range(n):
            h[lo + i] = src.head[i]
        elem = None
        for v in h.values():
            elem = v if elem is None else E.join_vals(st, elem, v)
        new = Sq(elem if (pn is not None and len(h) == pn) else E.join_vals(st, E._flat_elem(st, parent), E._flat_elem(st, src)), parent.len, h, None)
    else:
        new = Sq(E.join_vals(st, E._flat_elem(st, parent), E._flat_elem(st, src)), parent.len, None, None)
    write_through(E, st, dst.d["parent"], new)


def m_split_at_mut(E, st, fr, bi, callee, args, dest_ty):
    """<[T]>::split_at_mut(mid) -> two mutable windows into the same parent (only whole-window writes are modelled)"""
    p = args[0]
    while type(p) is Pt and p.key is not None and type(E.load(st, p.key, p.proj)) is Pt:
        p = E.load(st, p.key, p.proj)
    if type(p) is Md and p.kind == "mslice":
        return None
    s = as_seq(E, st, p)
    mid = args[1]
    ok = le_proved(E, st, mid, s.len)
    obligation(E, fr, bi, "SliceRange", ok, f"split_at_mut({st.itv[mid.vid]}) of len {st.itv[s.len.vid]}", "split_at_mut mid <= len")
    if not ok:
        E.assume_cmp(st, "Le", mid.vid, s.len.vid)
    usz = E.ctx.usize_ty()
    rest = E.binop(st, "Sub", s.len, mid, usz, False)
    par = Pt(p.key, p.proj, True)
    return ret1(Ag((Md("mslice", {"parent": par, "lo": usize(E, st, 0), "len": mid}), Md("mslice", {"parent": par, "lo": mid, "len": rest}))), st)


def m_split_at(E, st, fr, bi, callee, args, dest_ty):
    """<[T]>::split_at(mid) -> (&s[..mid], &s[mid..]) as two immutable views; panics when mid > len"""
    p = args[0]
    s = as_seq(E, st, p)
    mid = args[1]
    ok = le_proved(E, st, mid, s.len)
    obligation(E, fr, bi, "SliceRange", ok, f"split_at({st.itv[mid.vid]}) of len {st.itv[s.len.vid]}", "split_at mid <= len")
    if not ok:
        E.assume_cmp(st, "Le", mid.vid, s.len.vid)
    usz = E.ctx.usize_ty()
    c = st.const(mid)
    rest = E.binop(st, "Sub", s.len, mid, usz, False)
    h1 = h2 = None
    if s.head and c is not None:
        h1 = {k: v for k, v in s.head.items() if k < c} or None
        h2 = {k - c: v for k, v in s.head.items() if k >= c} or None
    k1, k2 = ("h", "split0", fr.id, bi), ("h", "split1", fr.id, bi)
    st.store[k1] = Sq(s.elem, mid, h1, None)
    st.store[k2] = Sq(s.elem, rest, h2, None)
    return ret1(Ag((Pt(k1), Pt(k2))), st)


def m_slice_ends(kind):
    """<[T]>::first / last / split_first / split_last as immutable views (None when the slice may be empty)"""
    def f(E, st, fr, bi, callee, args, dest_ty):
        p = args[0]
        s = as_seq(E, st, p)
        usz = E.ctx.usize_ty()
        lo, hi = st.itv[s.len.vid]
        vs = {}
        if lo == 0:
            vs[NONE] = ()
        if hi > 0:
            n = st.const(s.len)
            flat = E._flat_elem(st, s)
            if kind in ("first", "split_first"):
                one = s.head[0] if s.head and 0 in s.head else flat
            else:
                one = s.head[n - 1] if (n is not None and s.head and (n - 1) in s.head) else flat
            k1 = ("h", kind, fr.id, bi, 0)
            st.store[k1] = one
            if kind in ("first", "last"):
                vs[SOME] = (Pt(k1),)
            else:
                rest_len = E.ctx.mk_int(st, max(lo - 1, 0), hi - 1 if hi != INF else ISIZE_MAX, usz)
                st.add_fact(rest_len.vid, s.len.vid, -1)
                st.add_fact(s.len.vid, rest_len.vid, 1)
                heads = None
                if s.head and n is not None:
                    heads = ({k - 1: v for k, v in s.head.items() if k >= 1} if kind == "split_first" else {k: v for k, v in s.head.items() if k < n - 1}) or None
                k2 = ("h", kind, fr.id, bi, 1)
                st.store[k2] = Sq(s.elem, rest_len, heads, None)
                vs[SOME] = (Ag((Pt(k1), Pt(k2))),)
        return ret1(En(vs), st)
    f.__name__ = f"m_slice_{kind}"
    return f


def m_try_from_slice_array(E, st, fr, bi, callee, args, dest_ty):
    # <[T;N] as TryFrom<&[T]>> / TryFrom<Vec<T>> / <&[T] as TryInto<[T;N]>>::try_into  -> Result<[T;N], _>
    t = E.prog.ty(dest_ty)
    ok_ty = t.adt["variants"][OK]["fields"][0]["ty"]
    at = E.prog.ty(ok_ty)
    from .absint import array_len
    if at.tag != "Array":
        raise Unsupported("try_from target")
    n = array_len(at)
    s = as_seq(E, st, args[0])
    lo, hi = st.itv[s.len.vid]
    arr = Sq(s.elem, usize(E, st, n), s.head, None)
    outs = {}
    if lo <= n <= hi:
        outs[OK] = (arr,)
    if not (lo == hi == n):
        outs[ERR] = tuple(E.ctx.top_value(st, f["ty"]) for f in t.adt["variants"][ERR]["fields"])
    return ret1(En(outs), st)


def m_concat(E, st, fr, bi, callee, args, dest_ty):
    # [Vec<T>; k].concat() / slice of Vecs
    outer = as_seq(E, st, args[0])
    usz = E.ctx.usize_ty()
    if outer.head and st.const(outer.len) == len(outer.head):
        total = usize(E, st, 0)
        elem = None
        heads = {}
        exact = True
        for k in sorted(outer.head):
            part = deref2(E, st, outer.head[k])
            if type(part) is not Sq:
                raise Unsupported("concat part")
            off = st.const(total)
            pl = st.const(part.len)
            if exact and off is not None and pl is not None and off + pl <= 64 and (pl == 0 or (part.head and len(part.head) == pl)):
                for i in range(pl):
                    heads[off + i] = part.head[i]
            else:
                exact = False       # later parts are smashed; the distinguished prefix collected so far stays valid
            total = E.binop(st, "Add", total, part.len, usz, False)
            pe = E._flat_elem(st, part)
            if st.hi(part.len) > 0:
                elem = pe if elem is None else E.join_vals(st, elem, pe)
            elif elem is None:
                elem = pe
        return ret1(Sq(elem, total, heads or None, None), st)
    inner = deref2(E, st, outer.elem)
    return ret1(Sq(inner.elem, usize(E, st, 0, ISIZE_MAX), None, None), st)


def m_slice_iter(E, st, fr, bi, callee, args, dest_ty):
    p = args[0]
    if type(p) is Md and p.kind == "iter" and p.d.get("k") == "slice":
        return ret1(p, st)            # a chunk of <[T]>::chunks
    while type(p) is Pt and p.key is not None and type(E.load(st, p.key, p.proj)) is Pt:
        p = E.load(st, p.key, p.proj)
    s = as_seq(E, st, p)
    mut = "iter_mut" in callee.name or (dest_ty is not None and "IterMut" in E.prog.ty(dest_ty).s)
    return ret1(Md("iter", {"k": "slice", "src": p, "pos": usize(E, st, 0), "end": s.len, "mut": mut, "byref": True}), st)


def m_slice_chunks(E, st, fr, bi, callee, args, dest_ty):
    """<[T]>::chunks(size): chunk items are modelled as sub-iterators over the same slice (what `.iter()` on
    the chunk yields); `chunk.iter()` / `chunk.len()` on such an item are accepted by m_slice_iter / m_seq_len"""
    p = args[0]
    while type(p) is Pt and p.key is not None and type(E.load(st, p.key, p.proj)) is Pt:
        p = E.load(st, p.key, p.proj)
    s = as_seq(E, st, p)
    if st.lo(args[1]) < 1:
        obligation(E, fr, bi, "panic", False, "chunk size may be zero", "chunks")
    inner = Md("iter", {"k": "slice", "src": p, "pos": usize(E, st, 0), "end": s.len, "mut": False, "byref": True})
    return ret1(Md("iter", {"k": "chunks", "inner": inner, "size": args[1]}), st)


def m_slice_chunks_mut(E, st, fr, bi, callee, args, dest_ty):
    """<[T]>::chunks_mut(size) / chunks_exact_mut(size) on a slice of constant length: mutable windows, in order"""
    p = args[0]
    while type(p) is Pt and p.key is not None and type(E.load(st, p.key, p.proj)) is Pt:
        p = E.load(st, p.key, p.proj)
    if type(p) is not Pt or p.key is None:
        return None
    s = as_seq(E, st, p)
    size, n = st.const(args[1]), st.const(s.len)
    if size is None or size < 1 or n is None:
        obligation(E, fr, bi, "panic", st.lo(args[1]) >= 1, "chunk size may be zero", "chunks_mut")
        return None
    exact = "chunks_exact_mut" in callee.name
    cnt = n // size if exact else -(-n // size)
    return ret1(Md("iter", {"k": "vchunks", "src": p, "pos": usize(E, st, 0), "end": usize(E, st, cnt), "size": size,
                            "mparent": Pt(p.key, p.proj, True), "n": n}), st)


def m_slice_chunks_exact(E, st, fr, bi, callee, args, dest_ty):
    p = args[0]
    while type(p) is Pt and p.key is not None and type(E.load(st, p.key, p.proj)) is Pt:
        p = E.load(st, p.key, p.proj)
    s = as_seq(E, st, p)
    size = st.const(args[1])
    if size is None or size < 1:
        obligation(E, fr, bi, "panic", st.lo(args[1]) >= 1, "chunk size may be zero", "chunks_exact")
        return None
    usz = E.ctx.usize_ty()
    n = E.binop(st, "Div", s.len, E.ctx.const_int(st, size, usz), usz, False)
    return ret1(Md("iter", {"k": "vchunks", "src": p, "pos": usize(E, st, 0), "end": n, "size": size}), st)


def m_vec_into_iter(E, st, fr, bi, callee, args, dest_ty):
    s = args[0]
    if type(s) is Pt:
        return m_slice_iter(E, st, fr, bi, callee, args, dest_ty)
    if type(s) is not Sq:
        raise Unsupported("into_iter of non-seq")
    key = ("h", "intoiter", fr.id, bi)
    st.store[key] = s
    return ret1(Md("iter", {"k": "slice", "src": Pt(key), "pos": usize(E, st, 0), "end": s.len, "mut": False, "byref": False}), st)


def m_identity(E, st, fr, bi, callee, args, dest_ty):
    return ret1(args[0], st)


def m_unit(E, st, fr, bi, callee, args, dest_ty):
    return ret1(UNIT, st)


# ---------------------------------------------------------------------------------- iterators
def it_next(E, st, fr, bi, it):
    """abstract `next` on iterator model `it` -> (list of (item_or_None, new_it, state))"""
    k = it.d["k"]
    usz = E.ctx.usize_ty()
    if k == "slice" or k == "range":
        pos, end = it.d["pos"], it.d["end"]
        r = E.decide_cmp(st, "Lt", pos, end)
        outs = []
        if r is not False:
            s2 = st if r is True else st.copy()
            if r is None:
                try:
                    E.assume_cmp(s2, "Lt", pos.vid, end.vid)
                except Diverge:
                    s2 = None
            if s2 is not None:
                one = E.ctx.const_int(s2, 1, pos.ty)
                npos = E.binop(s2, "Add", pos, one, pos.ty, False)
                if k == "range":
                    item = pos
                else:
                    src = it.d["src"]
                    if it.d.get("rev"):
                        raise Unsupported("rev slice iter")
                    if it.d["byref"]:
                        item = Pt(src.key, src.proj + (("i", pos, None),), it.d["mut"])
                    else:
                        seq = E.load(s2, src.key, src.proj)
                        item = E.seq_read(s2, seq, pos)
                d = dict(it.d)
                d["pos"] = npos
                outs.append((item, Md("iter", d), s2))
        if r is not True:
            s3 = st if r is False else st.copy()
            if r is None:
                try:
                    E.assume_cmp(s3, "Ge", pos.vid, end.vid)
                except Diverge:
                    s3 = None
            if s3 is not None:
                outs.append((None, it, s3))
        return outs
    if k == "range_rev":
        pos, end = it.d["pos"], it.d["end"]    # yields end-1 down to pos
        r = E.decide_cmp(st, "Lt", pos, end)
        outs = []
        if r is not False:
            s2 = st if r is True else st.copy()
            if r is None:
                try:
                    E.assume_cmp(s2, "Lt", pos.vid, end.vid)
                except Diverge:
                    s2 = None
            if s2 is not None:
                one = E.ctx.const_int(s2, 1, pos.ty)
                nend = E.binop(s2, "Sub", end, one, pos.ty, False)
                d = dict(it.d)
                d["end"] = nend
                outs.append((nend, Md("iter", d), s2))
        if r is not True:
            s3 = st if r is False else st.copy()
            if r is None:
                try:
                    E.assume_cmp(s3, "Ge", pos.vid, end.vid)
                except Diverge:
                    s3 = None
            if s3 is not None:
                outs.append((None, it, s3))
        return outs
    if k == "map":
        outs = []
        for item, inner, s2 in it_next(E, st, fr, bi, it.d["inner"]):
            d = dict(it.d)
            d["inner"] = inner
            nit = Md("iter", d)
            if item is None:
                outs.append((None, nit, s2))
            else:
                arg = item
                if it.d.get("byref_item"):
                    keyb = ("h", "filter_item", fr.id, bi)          # predicates of filter / take_while take `&Item`
                    s2.store[keyb] = item
                    arg = Pt(keyb)
                with pinned(E.ctx, nit, it):
                    for r, s3 in call_closure(E, s2, fr, bi, it.d["f"], it.d["fty"], [arg]):
                        outs.append((r, nit, s3))
        return outs
    if k in ("copied", "cloned"):
        outs = []
        for item, inner, s2 in it_next(E, st, fr, bi, it.d["inner"]):
            d = dict(it.d)
            d["inner"] = inner
            outs.append((None if item is None else deref(E, s2, item), Md("iter", d), s2))
        return outs
    if k == "enumerate":
        outs = []
        for item, inner, s2 in it_next(E, st, fr, bi, it.d["inner"]):
            d = dict(it.d)
            d["inner"] = inner
            if item is None:
                outs.append((None, Md("iter", d), s2))
            else:
                cnt = it.d["count"]
                if it.d.get("alias"):
                    d["count"] = inner.d["pos"]
                else:
                    one = usize(E, s2, 1)
                    d["count"] = E.binop(s2, "Add", cnt, one, usz, False)
                outs.append((Ag((cnt, item)), Md("iter", d), s2))
        return outs
    if k == "zip":
        outs = []
        for ia, na, s2 in it_next(E, st, fr, bi, it.d["a"]):
            if ia is None:
                d = dict(it.d)
                d["a"] = na
                outs.append((None, Md("iter", d), s2))
                continue
            with pinned(E.ctx, ia, na, it):
                inner_b = it_next(E, s2, fr, bi, it.d["b"])
            for ib, nb, s3 in inner_b:
                d = dict(it.d)
                d["a"], d["b"] = na, nb
                outs.append((None if ib is None else Ag((ia, ib)), Md("iter", d), s3))
        return outs
    if k == "skip":
        inner = it.d["inner"]
        n = it.d["n"]
        if n is not None:
            inner = it_advance(E, st, inner, n)
        d = dict(it.d)
        d["n"] = None
        outs = []
        for item, ni, s2 in it_next(E, st, fr, bi, inner):
            d2 = dict(d)
            d2["inner"] = ni
            outs.append((item, Md("iter", d2), s2))
        return outs
    if k == "take":
        n = it.d["n"]
        z = usize(E, st, 0)
        r = E.decide_cmp(st, "Gt", n, z)
        outs = []
        if r is not False:
            s2 = st if r is True else st.copy()
            if r is None:
                try:
                    E.assume_cmp(s2, "Gt", n.vid, z.vid)
                except Diverge:
                    s2 = None
            if s2 is not None:
                one = usize(E, s2, 1)
                nn = E.binop(s2, "Sub", n, one, usz, False)
                for item, ni, s3 in it_next(E, s2, fr, bi, it.d["inner"]):
                    d = dict(it.d)
                    d["inner"], d["n"] = ni, nn
                    outs.append((item, Md("iter", d), s3))
        if r is not True:
            s3 = st if r is False else st.copy()
            outs.append((None, it, s3))
        return outs
    if k == "chain":
        outs = []
        if not it.d.get("a_done"):
            for item, na, s2 in it_next(E, st, fr, bi, it.d["a"]):
                d = dict(it.d)
                d["a"] = na
                if item is not None:
                    outs.append((item, Md("iter", d), s2))
                else:
                    d["a_done"] = True
                    for item2, nb, s3 in it_next(E, s2, fr, bi, it.d["b"]):
                        d2 = dict(d)
                        d2["b"] = nb
                        outs.append((item2, Md("iter", d2), s3))
            return outs
        for item2, nb, s3 in it_next(E, st, fr, bi, it.d["b"]):
            d2 = dict(it.d)
            d2["b"] = nb
            outs.append((item2, Md("iter", d2), s3))
        return outs
    if k == "slice_rev":
        pos, end = it.d["pos"], it.d["end"]
        r = E.decide_cmp(st, "Lt", pos, end)
        outs = []
        if r is not False:
            s2 = st if r is True else st.copy()
            try:
                if r is None:
                    E.assume_cmp(s2, "Lt", pos.vid, end.vid)
                one = E.ctx.const_int(s2, 1, pos.ty)
                nend = E.binop(s2, "Sub", end, one, pos.ty, False)
                src = it.d["src"]
                if it.d["byref"]:
                    item = Pt(src.key, src.proj + (("i", nend, None),), it.d["mut"])
                else:
                    item = E.seq_read(s2, E.load(s2, src.key, src.proj), nend)
                d = dict(it.d)
                d["end"] = nend
                outs.append((item, Md("iter", d), s2))
            except Diverge:
                pass
        if r is not True:
            s3 = st if r is False else st.copy()
            try:
                if r is None:
                    E.assume_cmp(s3, "Ge", pos.vid, end.vid)
                outs.append((None, it, s3))
            except Diverge:
                pass
        return outs
    if k == "vchunks":
        # <[T]>::chunks_exact(size): chunk number i is the view s[i*size .. (i+1)*size]
        sub = Md("iter", {"k": "range", "pos": it.d["pos"], "end": it.d["end"]})
        outs = []
        for idx, ni, s2 in it_next(E, st, fr, bi, sub):
            d = dict(it.d)
            d["pos"] = ni.d["pos"]
            if idx is None:
                outs.append((None, Md("iter", d), s2))
                continue
            src = as_seq(E, s2, it.d["src"])
            size = it.d["size"]
            c = s2.const(idx)
            if "mparent" in it.d:
                # chunks_mut / chunks_exact_mut: a mutable window into the parent (whole-window writes are modelled)
                n_ = it.d["n"]
                if c is None:
                    raise Unsupported("chunks_mut at a symbolic position")
                outs.append((Md("mslice", {"parent": it.d["mparent"], "lo": usize(E, s2, c * size), "len": usize(E, s2, min(size, n_ - c * size))}), Md("iter", d), s2))
                continue
            head = None
            if src.head and c is not None:
                head = {k_ - c * size: v for k_, v in src.head.items() if c * size <= k_ < (c + 1) * size} or None
            key = ("h", "vchunk", fr.id, bi, c if c is not None else "any")
            s2.store[key] = Sq(src.elem, E.ctx.const_int(s2, size, usz), head, None)
            outs.append((Pt(key), Md("iter", d), s2))
        return outs
    if k == "arith":
        n = st.const(it.d["n"])
        if n is None:
            raise Unsupported("symbolic arithmetic iterator")
        if n == 0:
            return [(None, it, st)]
        cur = it.d["cur"]
        c = st.const(cur)
        d = dict(it.d)
        d["n"] = usize(E, st, n - 1)
        d["cur"] = E.ctx.const_int(st, c + it.d["step"], cur.ty) if n > 1 else cur
        return [(cur, Md("iter", d), st)]
    if k == "chunks":
        inner = it.d["inner"]
        pos, end = inner.d["pos"], inner.d["end"]
        size = it.d["size"]
        r = E.decide_cmp(st, "Lt", pos, end)
        outs = []
        if r is not False:
            s2 = st if r is True else st.copy()
            try:
                if r is None:
                    E.assume_cmp(s2, "Lt", pos.vid, end.vid)
                lim = E.binop(s2, "Add", pos, size, pos.ty, False)
                cend = int_min(E, s2, end, lim)
                if cend.vid != pos.vid and s2.lo(size) >= 1:
                    if s2.const(cend) is None or s2.const(pos) is None:
                        s2.add_fact(pos.vid, cend.vid, -1)                 # at least one element
                        if s2.hi(size) != INF:
                            s2.add_fact(cend.vid, pos.vid, s2.hi(size))    # at most `size`
                di = dict(inner.d)
                di["pos"] = cend
                d = dict(it.d)
                d["inner"] = Md("iter", di)
                dc = dict(inner.d)
                dc["end"] = cend
                outs.append((Md("iter", dc), Md("iter", d), s2))
            except Diverge:
                pass
        if r is not True:
            s3 = st if r is False else st.copy()
            try:
                if r is None:
                    E.assume_cmp(s3, "Ge", pos.vid, end.vid)
                outs.append((None, it, s3))
            except Diverge:
                pass
        return outs
    if k == "bits":
        # bit_vec iterator: bools
        pos, end = it.d["pos"], it.d["end"]
        sub = Md("iter", {"k": "range", "pos": pos, "end": end})
        outs = []
        for item, ni, s2 in it_next(E, st, fr, bi, sub):
            d = dict(it.d)
            d["pos"] = ni.d["pos"]
            kb = None
            if item is not None and it.d.get("src") is not None:
                kb = known_bit(E, s2, Md("bitvec", {"src": it.d["src"]}), item)
            outs.append((None if item is None else E.ctx.mk_int(s2, 0 if kb is None else kb, 1 if kb is None else kb, E.ctx.bool_ty(), taint=True), Md("iter", d), s2))
        return outs
    if k == "opaque":
        s2 = st.copy()
        item = E.copy_fresh(st, it.d["elem"])
        return [(item, it, st), (None, it, s2)]
    raise Unsupported(f"iterator kind {k}")


def it_advance(E, st, it, n):
    """iterator after skipping n (I) items"""
    k = it.d["k"]
    if k in ("slice", "range", "bits"):
        pos, end = it.d["pos"], it.d["end"]
        np_ = E.binop(st, "Add", pos, n, pos.ty, False)
        # saturate at end
        r = E.decide_cmp(st, "Le", np_, end)
        d = dict(it.d)
        if r is True:
            d["pos"] = np_
        elif r is False:
            d["pos"] = end
        else:
            lo = min(st.lo(np_), st.lo(end))
            m = E.ctx.mk_int(st, lo, st.hi(end), pos.ty)
            st.add_fact(m.vid, end.vid, 0)
            st.add_fact(m.vid, np_.vid, 0)
            d["pos"] = m
        return Md("iter", d)
    if k in ("copied", "cloned", "map"):
        d = dict(it.d)
        d["inner"] = it_advance(E, st, it.d["inner"], n)
        return Md("iter", d)
    raise Unsupported(f"skip over {k}")


def it_len(E, st, it):
    """I value: number of remaining items (exact abstraction where possible)"""
    k = it.d["k"]
    usz = E.ctx.usize_ty()
    if k == "chunks":
        inner = it.d["inner"]
        rem = it_len(E, st, inner)
        size = it.d["size"]
        sz = st.const(size)
        if sz is None or sz <= 0:
            return E.ctx.mk_int(st, 0, st.hi(rem), rem.ty)
        lo, hi = st.itv[rem.vid]
        z = E.ctx.mk_int(st, -((-lo) // sz), (-((-hi) // sz)) if hi != INF else ISIZE_MAX, rem.ty)
        st.prov[z.vid] = ("ceildiv", (rem.vid,), sz)
        return z
    if k == "arith":
        return it.d["n"]
    if k in ("slice", "slice_rev", "range", "range_rev", "bits", "vchunks"):
        pos, end = it.d["pos"], it.d["end"]
        r = E.decide_cmp(st, "Le", pos, end)
        if r is True:
            return E.binop(st, "Sub", end, pos, pos.ty, False)
        hi = max(0, st.hi(end) - st.lo(pos)) if st.hi(end) != INF else ISIZE_MAX
        return E.ctx.mk_int(st, 0, hi, pos.ty)
    if k in ("map", "copied", "cloned", "enumerate"):
        return it_len(E, st, it.d["inner"])
    if k == "zip":
        a, b = it_len(E, st, it.d["a"]), it_len(E, st, it.d["b"])
        return int_min(E, st, a, b)
    if k == "take":
        return int_min(E, st, it.d["n"], it_len(E, st, it.d["inner"]))
    if k == "skip":
        inner = it.d["inner"]
        if it.d["n"] is not None:
            inner = it_advance(E, st, inner, it.d["n"])
        return it_len(E, st, inner)
    if k == "chain":
        return E.binop(st, "Add", it_len(E, st, it.d["a"]), it_len(E, st, it.d["b"]), usz, False)
    if k == "opaque":
        return it.d["len"]
    raise Unsupported(f"len of iterator {k}")


def int_min(E, st, a, b):
    if E.decide_cmp(st, "Le", a, b) is True:
        return a
    if E.decide_cmp(st, "Le", b, a) is True:
        return b
    ta, tb_ = tl(st, a.vid), tl(st, b.vid)
    m = E.ctx.mk_int(st, min(st.lo(a), st.lo(b)), min(st.hi(a), st.hi(b)), a.ty, taint=((ta or EMPTY) | (tb_ or EMPTY)) if (ta is not None or tb_ is not None) else False)
    st.add_fact(m.vid, a.vid, 0)
    st.add_fact(m.vid, b.vid, 0)
    return m


def import_value(E, st, src, v):
    """copy a value that lives in state `src` into state `st` (fresh vids, same intervals)"""
    if type(v) is Pt:
        v = deref(E, src, v)
    return map_value(v, lambda i: E.ctx.mk_int(st, *src.itv[i.vid], i.ty, taint=tl(src, i.vid)))


def pure_env(E, st, it):
    """closures run on a smashed copy of the iterator: refuse closures that can write caller memory"""
    k = it.d["k"]
    if k == "map":
        for _, p in ((None, x) for x in (it.d["f"].f if type(it.d["f"]) is Ag else ())):
            if type(p) is Pt and p.mut and p.key is not None:
                tgt = E.load(st, p.key, p.proj)
                while type(tgt) is Pt and tgt.key is not None:
                    tgt = E.load(st, tgt.key, tgt.proj)
                if not (type(tgt) is Md and tgt.kind == "rng"):
                    raise Unsupported("closure with mutable capture in a bulk iterator operation")
    for f in ("inner", "a", "b"):
        if f in it.d and type(it.d[f]) is Md:
            pure_env(E, st, it.d[f])


def it_elem(E, st, fr, bi, it):
    """abstraction (valid in `st`) of any item the iterator may yield; None if certainly empty"""
    pure_env(E, st, it)
    item = None
    for x, _, s2 in it_next_abstract(E, st, fr, bi, it):
        if x is not None:
            y = import_value(E, st, s2, x)
            item = y if item is None else E.join_vals(st, item, y)
    return item


def it_smash(E, st, it):
    """iterator with its position forgotten (any position between pos and end)"""
    k = it.d["k"]
    d = dict(it.d)
    if k in ("slice", "range", "bits", "vchunks"):
        pos, end = it.d["pos"], it.d["end"]
        lo = st.lo(pos)
        hi = max(lo, st.hi(end))
        p = E.ctx.mk_int(st, lo, hi, pos.ty)
        st.add_fact(pos.vid, p.vid, 0)
        st.add_fact(p.vid, end.vid, 0)
        d["pos"] = p
        return Md("iter", d)
    if k in ("range_rev", "slice_rev"):
        pos, end = it.d["pos"], it.d["end"]
        e = E.ctx.mk_int(st, st.lo(pos), st.hi(end), pos.ty)
        st.add_fact(e.vid, end.vid, 0)
        st.add_fact(pos.vid, e.vid, 0)
        d["end"] = e
        return Md("iter", d)
    for f in ("inner", "a", "b"):
        if f in d and type(d[f]) is Md:
            d[f] = it_smash(E, st, d[f])
    if k == "chunks":
        # any chunk start: pos of the inner iterator anywhere, but at least one element left is decided by next()
        return Md("iter", d)
    if k == "enumerate":
        c = it.d["count"]
        if it.d.get("alias"):
            d["count"] = d["inner"].d["pos"]
        else:
            d["count"] = E.ctx.mk_int(st, st.lo(c), ISIZE_MAX, c.ty)
    if k == "take":
        n = it.d["n"]
        d["n"] = E.ctx.mk_int(st, 0, st.hi(n), n.ty)
    if k == "skip" and it.d["n"] is not None:
        d["inner"] = it_smash(E, st, it_advance(E, st, it.d["inner"], it.d["n"]))
        d["n"] = None
    return Md("iter", d)


def it_next_abstract(E, st, fr, bi, it):
    s2 = st.copy()
    sm = it_smash(E, s2, it)
    return it_next(E, s2, fr, bi, sm)


def call_closure(E, st, fr, bi, fval, fty, args):
    inst = E.callable_for_type(fty)
    if inst is None:
        raise Unsupported(f"closure body for type {fty} not found")
    t = E.prog.ty(fty)
    if t.tag == "Closure":
        b = E.ctx.body(inst)
        envty = E.prog.ty(b.locals[1]["ty"])
        env = fval
        if envty.tag == "Ref":
            key = ("h", "env", fr.id, bi, fty)
            st.store[key] = fval
            env = Pt(key, (), True)
        return E.call(st, fr, bi, inst, [env] + list(args), b.locals[0]["ty"])
    b = E.ctx.body(inst) if inst.body is not None else None
    rty = b.locals[0]["ty"] if b else None
    return E.call(st, fr, bi, inst, list(args), rty)



def m_array_map(E, st, fr, bi, callee, args, dest_ty):
    """<[T; N]>::map(f): apply the closure to each distinguished element in order (N small and constant)"""
    arr = args[0]
    if type(arr) is not Sq:
        return None
    n = st.const(arr.len)
    if n is None or n > 16:
        return None
    tys = fn_generic_types(callee)
    fty = None
    for t in tys:
        if E.prog.ty(t).tag in ("Closure", "FnDef", "FnPtr"):
            fty = t
    if fty is None:
        return None
    states = [([], st)]
    for i in range(n):
        item = arr.head[i] if arr.head and i in arr.head else arr.elem
        nxt = []
        for acc, s in states:
            with pinned(E.ctx, arr, args[1], *acc):
                for r, s2 in call_closure(E, s, fr, bi, args[1], fty, [item]):
                    nxt.append((acc + [r], s2))
        states = nxt
        if len(states) > 8:
            raise Unsupported("array::map: too many closure outcomes")
    outs = []
    for acc, s in states:
        elem = None
        for x in acc:
            elem = x if elem is None else E.join_vals(s, elem, x)
        outs.append((Sq(elem if elem is not None else BOT, E.ctx.const_int(s, n, E.ctx.usize_ty()), {i: x for i, x in enumerate(acc)}, None), s))
    return outs


def m_array_clone(E, st, fr, bi, callee, args, dest_ty):
    v = deref2(E, st, args[0])
    if type(v) is Sq:
        return ret1(v, st)
    return None


def iter_arg(E, st, v):
    v = deref2(E, st, v)
    if type(v) is Md and v.kind == "iter":
        return v
    if type(v) is Ag and len(v.f) == 2 and all(type(x) is I for x in v.f):
        return Md("iter", {"k": "range", "pos": v.f[0], "end": v.f[1]})
    raise Unsupported(f"not an iterator model: {v}")


def fn_generic_types(callee):
    return [a["ty"] for a in callee.args if isinstance(a, dict) and "ty" in a]


def m_iter_adapt(kind):
    def f(E, st, fr, bi, callee, args, dest_ty):
        it = iter_arg(E, st, args[0])
        if kind == "map":
            ftys = fn_generic_types(callee)
            fty = ftys[-1]
            return ret1(Md("iter", {"k": "map", "inner": it, "f": args[1], "fty": fty}), st)
        if kind in ("copied", "cloned"):
            return ret1(Md("iter", {"k": kind, "inner": it}), st)
        if kind == "enumerate":
            if it.d["k"] in ("slice", "range", "vchunks") and st.const(it.d["pos"]) == 0:
                return ret1(Md("iter", {"k": "enumerate", "inner": it, "count": it.d["pos"], "alias": True}), st)
            return ret1(Md("iter", {"k": "enumerate", "inner": it, "count": usize(E, st, 0), "alias": False}), st)
        if kind == "zip":
            other = args[1]
            o = deref2(E, st, other) if type(other) is Pt else other
            if type(o) is Sq:
                outs = m_vec_into_iter(E, st, fr, bi, callee, [other], None)
                o = outs[0][0]
            else:
                o = iter_arg(E, st, o)
            return ret1(Md("iter", {"k": "zip", "a": it, "b": o}), st)
        if kind == "skip":
            return ret1(it_advance(E, st, it, args[1]), st)
        if kind == "take":
            if it.d["k"] in ("bits", "slice", "range"):
                pos, end = it.d["pos"], it.d["end"]
                lim = E.binop(st, "Add", pos, args[1], pos.ty, False)
                d = dict(it.d)
                d["end"] = int_min(E, st, end, lim)
                return ret1(Md("iter", d), st)
            return ret1(Md("iter", {"k": "take", "inner": it, "n": args[1]}), st)
        if kind == "filter":
            ftys = fn_generic_types(callee)
            return ret1(Md("iter", {"k": "filter", "inner": it, "f": args[1], "fty": ftys[-1]}), st)
        if kind == "take_while":
            ftys = fn_generic_types(callee)
            return ret1(Md("iter", {"k": "take_while", "inner": it, "f": args[1], "fty": ftys[-1]}), st)
        if kind == "chunks":
            if it.d["k"] not in ("bits", "slice", "range"):
                raise Unsupported("chunks over " + it.d["k"])
            return ret1(Md("iter", {"k": "chunks", "inner": it, "size": args[1]}), st)
        if kind == "chain":
            other = args[1]
            o = iter_arg(E, st, other)
            return ret1(Md("iter", {"k": "chain", "a": it, "b": o}), st)
        if kind == "rev":
            if it.d["k"] == "range":
                return ret1(Md("iter", {"k": "range_rev", "pos": it.d["pos"], "end": it.d["end"]}), st)
            if it.d["k"] == "slice":
                return ret1(Md("iter", dict(it.d, k="slice_rev")), st)
            if it.d["k"] == "zip":
                a_, b_ = it.d["a"], it.d["b"]
                if a_.d["k"] == "slice" and b_.d["k"] == "slice" and E.decide_cmp(st, "Eq", it_len(E, st, a_), it_len(E, st, b_)) is True:
                    return ret1(Md("iter", {"k": "zip", "a": Md("iter", dict(a_.d, k="slice_rev")), "b": Md("iter", dict(b_.d, k="slice_rev"))}), st)
                raise Unsupported("rev of a zip whose sides are not slices of provably equal length")
            if it.d["k"] == "arith":
                cur, n, step = it.d["cur"], it.d["n"], it.d["step"]
                c, nn = st.const(cur), st.const(n)
                if c is None or nn is None:
                    raise Unsupported("rev of symbolic step_by")
                last = c + (nn - 1) * step if nn > 0 else c
                return ret1(Md("iter", {"k": "arith", "cur": E.ctx.const_int(st, last, cur.ty), "n": n, "step": -step}), st)
            raise Unsupported(f"rev of {it.d['k']}")
        if kind == "step_by":
            if it.d["k"] != "range":
                raise Unsupported("step_by over " + it.d["k"])
            stp = st.const(args[1])
            lo_, hi_ = st.const(it.d["pos"]), st.const(it.d["end"])
            if stp is None or stp <= 0 or lo_ is None or hi_ is None:
                raise Unsupported("symbolic step_by")
            cnt = max(0, -((lo_ - hi_) // stp))
            return ret1(Md("iter", {"k": "arith", "cur": it.d["pos"], "n": usize(E, st, cnt), "step": stp}), st)
        raise Unsupported(kind)
    f.__name__ = f"m_iter_{kind}"
    return f


def m_iter_next(E, st, fr, bi, callee, args, dest_ty):
    p = args[0]
    it = deref2(E, st, p)
    plain_range = False
    if type(it) is Ag:
        plain_range = True
        it = iter_arg(E, st, it)
    if type(it) is not Md or it.kind != "iter":
        raise Unsupported("next on non-model")
    outs = []
    for item, nit, s2 in it_next(E, st, fr, bi, it):
        new = Ag((nit.d["pos"], nit.d["end"])) if plain_range else nit
        write_through(E, s2, p, new)
        outs.append((option(item) if item is not None else option(), s2))
    if len(outs) == 2:
        # keep one successor state: join (payload facts survive inside the Some variant)
        (ra, sa), (rb, sb) = outs
        from .absint import join_states
        sa.store[("tmp", "ret")] = ra if False else UNIT
        return outs
    return outs


def m_range_inclusive_next(E, st, fr, bi, callee, args, dest_ty):
    p = args[0]
    r = deref2(E, st, p)
    if type(r) is not Ag or len(r.f) != 3:
        raise Unsupported("RangeInclusive shape")
    start, end, exh = r.f
    outs = []
    ex = st.itv[exh.vid]
    if ex[1] == 1:
        s0 = st if ex[0] == 1 else st.copy()
        outs.append((option(), s0))
        if ex[0] == 1:
            return outs
    # not exhausted
    base = st if ex[1] == 0 else st.copy()
    if ex != (0, 0):
        E.set_itv(base, exh.vid, 0, 0)
    c = E.decide_cmp(base, "Lt", start, end)
    e = E.decide_cmp(base, "Eq", start, end)
    cases = []
    if c is True:
        cases = ["lt"]
    elif e is True:
        cases = ["eq"]
    elif E.decide_cmp(base, "Gt", start, end) is True:
        cases = ["gt"]
    else:
        cases = ["lt", "eq", "gt"]
    for i, cs in enumerate(cases):
        s2 = base if i == len(cases) - 1 else base.copy()
        try:
            if len(cases) > 1:
                E.assume_cmp(s2, {"lt": "Lt", "eq": "Eq", "gt": "Gt"}[cs], start.vid, end.vid)
        except Diverge:
            continue
        if cs == "lt":
            one = E.ctx.const_int(s2, 1, start.ty)
            ns = E.binop(s2, "Add", start, one, start.ty, False)
            write_through(E, s2, p, Ag((ns, end, exh)))
            outs.append((option(start), s2))
        elif cs == "eq":
            write_through(E, s2, p, Ag((start, end, E.mkbool(s2, 1))))
            outs.append((option(start), s2))
        else:
            outs.append((option(), s2))
    return outs


def m_deref_model(E, st, fr, bi, callee, args, dest_ty):
    return ret1(deref2(E, st, args[0]), st)


def m_iter_anyall(E, st, fr, bi, callee, args, dest_ty):
    is_all = "::all::<" in callee.name
    p = args[0]
    it = iter_arg(E, st, p)
    fty = fn_generic_types(callee)[-1]
    n = it_len(E, st, it)
    empty_certain = st.hi(n) == 0
    if empty_certain:
        return ret1(E.mkbool(st, 1 if is_all else 0), st)
    mp = Md("iter", {"k": "map", "inner": it, "f": args[1], "fty": fty})
    val = None
    c = st.const(n)
    r = None
    if c is not None and 1 <= c <= 8 and E.ctx.hooks.get("exact_collect_max", 0) >= c and E.ctx.hooks.get("exact_anyall"):
        # exact small case (opt-in): evaluate the predicate element by element, in order, on a scratch state
        s = st.copy()
        cur = mp
        res = []
        try:
            E.ctx.quiet += 1
            for _ in range(c):
                outs = [o for o in it_next(E, s, fr, bi, cur) if o[0] is not None]
                if len(outs) != 1 or type(outs[0][0]) is not I:
                    res = None
                    break
                x, cur, s = outs[0]
                res.append(s.itv[x.vid])
        except (Unsupported, Diverge):
            res = None
        finally:
            E.ctx.quiet -= 1
        if res is not None:
            if is_all:
                val = 0 if any(v == (0, 0) for v in res) else (1 if all(v == (1, 1) for v in res) else None)
            else:
                val = 1 if any(v == (1, 1) for v in res) else (0 if all(v == (0, 0) for v in res) else None)
    if val is None:
        with pinned(E.ctx, n, it):
            r = it_elem(E, st, fr, bi, mp)
    if type(r) is I:
        lo, hi = st.itv[r.vid]
        if is_all and lo == hi == 1:
            val = 1                      # predicate holds for every possible element
        elif is_all and lo == hi == 0 and st.lo(n) > 0:
            val = 0
        elif not is_all and lo == hi == 0:
            val = 0
        elif not is_all and lo == hi == 1 and st.lo(n) > 0:
            val = 1
    # the iterator is consumed (short-circuiting leaves it somewhere in between)
    try:
        write_through(E, st, p, it_smash(E, st, it)) if type(p) is Pt and p.key is not None else None
    except Unsupported:
        pass
    src = it.d.get("src") if it.d["k"] == "slice" else None
    # the closure's captures may live in a frame that is gone when the result is branched on: keep copies
    fval = args[1]
    if type(fval) is Ag:
        caps = []
        for ci, c in enumerate(fval.f):
            if type(c) is Pt and c.key is not None:
                try:
                    k2 = ("h", "envcopy", fr.id, bi, ci)
                    st.store[k2] = E.load(st, c.key, c.proj)
                    caps.append(Pt(k2))
                except (Unsupported, Diverge):
                    caps.append(c)
            else:
                caps.append(c)
        fval = Ag(caps)
    b = E.mkbool(st, val, ("anyall", (), (is_all, src, fval, fty, (fr.id, bi))))
    return ret1(b, st)


def m_iter_unzip(E, st, fr, bi, callee, args, dest_ty):
    """Iterator::unzip() into (Vec<A>, Vec<B>): item by item for a small constant length (distinguished elements kept),
    otherwise two vectors of the iterator's length with one summarised element each"""
    t = E.prog.ty(dest_ty)
    if t.tag != "Tuple" or len(t.arg) != 2 or not all(E.prog.ty(x).tag == "Adt" and E.prog.ty(x).adt["name"] == "std::vec::Vec" for x in t.arg):
        return None
    it = iter_arg(E, st, args[0])
    n = it_len(E, st, it)
    c = st.const(n)
    if c is not None and c <= max(64, E.ctx.hooks.get("exact_collect_max", 64)):
        cur, s = it, st
        ha, hb = {}, {}
        with pinned(E.ctx, n, it):
            for k in range(c):
                with pinned(E.ctx, cur, *ha.values(), *hb.values()):
                    outs = [o for o in it_next(E, s, fr, bi, cur) if o[0] is not None]
                if len(outs) != 1 or type(outs[0][0]) is not Ag or len(outs[0][0].f) != 2:
                    return None
                x, cur, s = outs[0]
                ha[k], hb[k] = x.f[0], x.f[1]
        def seq(h):
            elem = None
            for v in h.values():
                elem = v if elem is None else E.join_vals(s, elem, v)
            return Sq(elem if elem is not None else BOT, E.ctx.const_int(s, c, E.ctx.usize_ty()), dict(h) or None, None)
        return ret1(Ag((seq(ha), seq(hb))), s)
    with pinned(E.ctx, n, it):
        item = it_elem(E, st, fr, bi, it)
    if item is None:
        return ret1(Ag((Sq(BOT, n, None, None), Sq(BOT, n, None, None))), st)
    if type(item) is not Ag or len(item.f) != 2:
        return None
    return ret1(Ag((Sq(item.f[0], n, None, None), Sq(E.copy_fresh(st, item.f[1]) if False else item.f[1], n, None, None))), st)


def m_iter_position(E, st, fr, bi, callee, args, dest_ty):
    """Iterator::position(pred) -> Option<usize>.
    Small constant length: the predicate is evaluated item by item, in order; every index at which it may hold is one
    `Some(k)` outcome (with the predicate assumed there and refuted before), and `None` remains if it may fail everywhere.
    Otherwise: the predicate is analysed once on an arbitrary item (its obligations stand for every call);
    `Some(p)` with 0 <= p < len, and `None` unless the predicate certainly holds on a non-empty iterator."""
    p = args[0]
    it = iter_arg(E, st, p)
    fty = fn_generic_types(callee)[-1]
    n = it_len(E, st, it)
    usz = E.ctx.usize_ty()
    if st.hi(n) == 0:
        return ret1(En({NONE: ()}), st)
    c = st.const(n)
    lim = 160 if (E.ctx.hooks.get("exact_anyall") or E.ctx.hooks.get("kbits_eager")) else max(64, E.ctx.hooks.get("exact_collect_max", 64))
    if c is not None and c <= lim:
        outs = []
        live = [(it, st)]
        with pinned(E.ctx, n, it, args[1]):
            for k in range(c):
                nxt = []
                for cur, s in live:
                    with pinned(E.ctx, cur):
                        its = [o for o in it_next(E, s, fr, bi, cur) if o[0] is not None]
                    for item, cur2, s2 in its:
                        with pinned(E.ctx, cur2, item):
                            rs = call_closure(E, s2, fr, bi, args[1], fty, [item])
                        for r, s3 in rs:
                            if type(r) is not I:
                                raise Unsupported("position: predicate result")
                            lo, hi = s3.itv[r.vid]
                            if hi >= 1:
                                s4 = s3 if lo >= 1 else s3.copy()
                                if lo < 1:
                                    E.set_itv(s4, r.vid, 1, 1)
                                if type(p) is Pt and p.key is not None:
                                    try:
                                        write_through(E, s4, p, cur2)
                                    except Unsupported:
                                        pass
                                outs.append((En({SOME: (E.ctx.const_int(s4, k, usz),)}), s4))
                            if lo <= 0:
                                if hi >= 1:
                                    E.set_itv(s3, r.vid, 0, 0)
                                nxt.append((cur2, s3))
                live = nxt
                if len(live) + len(outs) > 200:
                    raise Unsupported("position: too many outcomes")
                if not live:
                    break
        for cur, s in live:
            if type(p) is Pt and p.key is not None:
                try:
                    write_through(E, s, p, cur)
                except Unsupported:
                    pass
            outs.append((En({NONE: ()}), s))
        return outs
    mp = Md("iter", {"k": "map", "inner": it, "f": args[1], "fty": fty})
    with pinned(E.ctx, n, it):
        r = it_elem(E, st, fr, bi, mp)
    may_t = not (type(r) is I and st.itv[r.vid] == (0, 0))
    may_f = not (type(r) is I and st.itv[r.vid] == (1, 1) and st.lo(n) > 0)
    try:
        write_through(E, st, p, it_smash(E, st, it)) if type(p) is Pt and p.key is not None else None
    except Unsupported:
        pass
    outs = []
    if may_t:
        s2 = st.copy() if may_f else st
        pos = E.ctx.mk_int(s2, 0, max(0, st.hi(n) - 1) if st.hi(n) != INF else ISIZE_MAX, usz)
        s2.add_fact(pos.vid, n.vid, -1)
        outs.append((En({SOME: (pos,)}), s2))
    if may_f:
        outs.append((En({NONE: ()}), st))
    return outs


def m_iter_sum(E, st, fr, bi, callee, args, dest_ty):
    it = iter_arg(E, st, args[0])
    t = E.prog.ty(dest_ty)
    n = it_len(E, st, it)
    with pinned(E.ctx, n, it):
        item = it_elem(E, st, fr, bi, it)
    if t.tag == "Float":
        c = st.const(n)
        if c is not None and 1 <= c <= 8:
            # exact small case: fold the terms in order, keeping the symbolic expression
            cur, s, acc = it, st, None
            okk = True
            with pinned(E.ctx, n, it):
                for _ in range(c):
                    with pinned(E.ctx, cur):
                        outs = [o for o in it_next(E, s, fr, bi, cur) if o[0] is not None]
                    if len(outs) != 1 or type(outs[0][0]) is not Fl:
                        okk = False
                        break
                    x, cur, s = outs[0]
                    acc = x if acc is None else E.float_binop(s, "Add", acc, x, dest_ty)
            if okk and acc is not None:
                return ret1(acc, s)
        return ret1(Fl(-INF, INF, True, ("sum", getattr(item, "tag", None))), st)
    if item is None:
        return ret1(E.ctx.const_int(st, 0, dest_ty), st)
    if type(item) is not I:
        raise Unsupported("sum of non-int")
    lo, hi = st.itv[item.vid]
    E.ctx.emit("sum", frame=fr, bb=bi, item=item, n=n, st=st)
    c = st.const(n)
    if c is not None and 1 <= c <= 64 and E.ctx.hooks.get("exact_int_sum"):
        # exact small case (rule-enabled): add the terms in order
        cur, s, acc = it, st, None
        okk = True
        with pinned(E.ctx, n, it):
            for _ in range(c):
                with pinned(E.ctx, cur, acc):
                    outs = [o for o in it_next(E, s, fr, bi, cur) if o[0] is not None]
                if len(outs) != 1:
                    okk = False
                    break
                x, cur, s = outs[0]
                if type(x) is Pt:
                    x = deref(E, s, x)
                if type(x) is not I:
                    okk = False
                    break
                with pinned(E.ctx, cur, acc, x):
                    acc = x if acc is None else E.binop(s, "Add", acc, x, dest_ty, False)
        if okk and acc is not None:
            alo, ahi = s.itv[acc.vid]
            tlo, thi = t.int_range()
            obligation(E, fr, bi, "Overflow", tlo <= alo and ahi <= thi, f"sum of {c} terms", "Iterator::sum")
            return ret1(acc, s)
    nlo, nhi = st.itv[n.vid]
    cands = [lo * nlo, lo * nhi, hi * nlo, hi * nhi]
    slo, shi = min(cands + [0] if nlo == 0 else cands), max(cands + [0] if nlo == 0 else cands)
    tlo, thi = t.int_range()
    ok = tlo <= slo and shi <= thi
    obligation(E, fr, bi, "Overflow", ok, f"sum of {st.itv[n.vid]} terms in [{lo},{hi}]", "Iterator::sum")
    z = E.ctx.mk_int(st, max(slo, tlo), min(shi, thi), dest_ty, taint=tl(st, item.vid))
    st.prov[z.vid] = ("sum", (), None)
    return ret1(z, st)



def m_range_contains(inclusive):
    """Range / RangeInclusive::<int>::contains(&item): two outcomes — true with start <= item (<|<=) end assumed on the
    item, false with nothing assumed (the complement is not an interval)"""
    def f(E, st, fr, bi, callee, args, dest_ty):
        rg = deref2(E, st, args[0])
        item = deref2(E, st, args[1])
        if type(rg) is not Ag or type(item) is not I or len(rg.f) < 2 or type(rg.f[0]) is not I or type(rg.f[1]) is not I:
            return None
        if inclusive and len(rg.f) >= 3 and type(rg.f[2]) is I and st.hi(rg.f[2]) != 0:
            return None                                   # a possibly exhausted inclusive range: leave it to the body
        lo, hi = rg.f[0], rg.f[1]
        bool_ty = dest_ty
        outs = []
        c1 = E.decide_cmp(st, "Le", lo, item)
        c2 = E.decide_cmp(st, "Le" if inclusive else "Lt", item, hi)
        if c1 is not False and c2 is not False:
            s2 = st.copy()
            try:
                E.assume_cmp(s2, "Le", lo.vid, item.vid)
                E.assume_cmp(s2, "Le" if inclusive else "Lt", item.vid, hi.vid)
                outs.append((E.ctx.const_int(s2, 1, bool_ty), s2))
            except Diverge:
                pass
        if not (c1 is True and c2 is True):
            s3 = st.copy() if outs else st
            outs.append((E.ctx.const_int(s3, 0, bool_ty), s3))
        return outs
    f.__name__ = "m_range_contains"
    return f


def m_iter_extremum(kind):
    """Iterator::max / min over integers -> Option<T>: exact fold for a small constant length, otherwise the hull of the
    items (Some) and None when the iterator may be empty"""
    def f(E, st, fr, bi, callee, args, dest_ty):
        it = iter_arg(E, st, args[0])
        n = it_len(E, st, it)
        c = st.const(n)
        if c == 0:
            return ret1(En({NONE: ()}), st)
        if c is not None and c <= max(64, E.ctx.hooks.get("exact_collect_max", 64)):
            cur, s, acc = it, st, None
            okk = True
            with pinned(E.ctx, n, it):
                for _ in range(c):
                    with pinned(E.ctx, cur, acc):
                        outs = [o for o in it_next(E, s, fr, bi, cur) if o[0] is not None]
                    if len(outs) != 1:
                        okk = False
                        break
                    x, cur, s = outs[0]
                    if type(x) is Pt:
                        okk = False            # max over references returns a reference: not modelled here
                        break
                    if type(x) is not I:
                        okk = False
                        break
                    if acc is None:
                        acc = x
                    elif kind == "min":
                        acc = int_min(E, s, acc, x)
                    else:
                        with pinned(E.ctx, cur, acc, x):
                            acc = m_minmax("max")(E, s, fr, bi, callee, [acc, x], x.ty)[0][0]
            if okk and acc is not None:
                return ret1(En({SOME: (acc,)}), s)
        with pinned(E.ctx, n, it):
            item = it_elem(E, st, fr, bi, it)
        if item is None:
            return ret1(En({NONE: ()}), st)
        if type(item) is not I:
            return None
        outs = []
        if st.hi(n) > 0:
            s2 = st.copy() if st.lo(n) == 0 else st
            z = E.ctx.mk_int(s2, *s2.itv[item.vid], item.ty, taint=tl(s2, item.vid) if tl(s2, item.vid) is not None else False)
            outs.append((En({SOME: (z,)}), s2))
        if st.lo(n) == 0:
            outs.append((En({NONE: ()}), st))
        return outs
    f.__name__ = f"m_iter_{kind}"
    return f


def m_iter_fold(E, st, fr, bi, callee, args, dest_ty):
    """Iterator::fold(init, f) / for_each(f): exact when the iterator has a small constant length (each step is one closure
    call, in order); otherwise not modelled (the caller falls back to the unknown-call treatment)"""
    it = iter_arg(E, st, args[0])
    is_for_each = "::for_each::<" in callee.name
    fn_arg = args[1] if is_for_each else args[2]
    fty = None
    for t in fn_generic_types(callee):
        if E.prog.ty(t).tag in ("Closure", "FnDef", "FnPtr"):
            fty = t
    if fty is None:
        return None
    n = it_len(E, st, it)
    c = st.const(n)
    if c is None or c > max(64, E.ctx.hooks.get("exact_collect_max", 64)):
        if is_for_each:
            return _for_each_fix(E, st, fr, bi, it, fn_arg, fty)
        return _fold_fix(E, st, fr, bi, it, n, args[1], fn_arg, fty)
    states = [((UNIT if is_for_each else args[1]), it, st)]
    # no case splits on bool-to-int casts inside the step function unless the rule works with known bits: the
    # accumulator would fork at every step
    saved_parts = E.ctx.max_parts
    if not E.ctx.hooks.get("kbits_eager"):
        E.ctx.max_parts = 0
    try:
        return _fold_steps(E, st, fr, bi, states, c, n, it, fn_arg, fty, is_for_each)
    finally:
        E.ctx.max_parts = saved_parts


def _for_each_fix(E, st, fr, bi, it, fn_arg, fty):
    """for_each over an iterator of unknown or large length, as the loop it is: the state after any number of steps is
    the least fixpoint of  S = S0 join step(S)  where a step applies the closure to an item at an arbitrary position
    (writes through such an item are weak updates); widening after three rounds"""
    from .absint import join_states, same_state, rename_bulk, gc_state
    ctx = E.ctx
    cur = st
    tagk = (fr.id, ("foreach", bi))
    with pinned(ctx, it, fn_arg):
        for rnd in range(60):
            nxt = cur
            for item, _, s2 in it_next_abstract(E, cur, fr, bi, it):
                if item is None:
                    continue
                with pinned(ctx, item):
                    rs = call_closure(E, s2, fr, bi, fn_arg, fty, [item])
                for _, s3 in rs:
                    stale = {x: ctx.fresh() for x in s3.itv if type(x) is tuple and len(x) >= 2 and x[0] == "j" and x[1] == tagk}
                    rename_bulk(s3, stale)
                    nxt = join_states(ctx, nxt, s3, tagk, widen=rnd >= 3)
            if nxt is cur or same_state(nxt, cur):
                return [(UNIT, cur)]
            cur = nxt
    raise Unsupported("for_each: no fixpoint")


def _fold_fix(E, st, fr, bi, it, n, init, fn_arg, fty):
    """fold over an iterator of unknown or large length.
    Integer accumulator: linear extrapolation with the trip count, verified inductively — if one step maps every acc of the
    candidate range [init + min(0, N dlo), init + max(0, N dhi)] (N = largest possible length) to acc + [dlo, dhi] (difference
    bounds of the step), then after i <= N steps acc is in init + i [dlo, dhi]; the step's own obligations are recorded on
    that symbolic run, which stands for every iteration.
    Any other accumulator: least fixpoint of  S = S0 join step(S)  with widening after three rounds."""
    from .absint import join_states, same_state, rename_bulk
    ctx = E.ctx
    N = st.hi(n)
    if type(init) is I and N != INF and N <= (1 << 40):
        tlo, thi = ctx.int_range(init.ty)
        ilo, ihi = st.itv[init.vid]
        with pinned(ctx, it, fn_arg, init, n):
            # probe (quiet): difference bounds of one step from the initial value
            ctx.quiet += 1
            try:
                d = None
                for item, _, s2 in it_next_abstract(E, st, fr, bi, it):
                    if item is None:
                        continue
                    with pinned(ctx, item):
                        for r, s3 in call_closure(E, s2, fr, bi, fn_arg, fty, [init, item]):
                            if type(r) is not I:
                                d = "no"
                                break
                            up, dn = s3.bound(r.vid, init.vid), s3.bound(init.vid, r.vid)
                            if up is None or dn is None:
                                d = "no"
                                break
                            d = (-dn, up) if d is None else (min(d[0], -dn), max(d[1], up))
            finally:
                ctx.quiet -= 1
            if d is None:
                return ret1(init, st)                  # the iterator is certainly empty
            if d != "no":
                dlo, dhi = d
                clo, chi = max(tlo, ilo + min(0, N * dlo)), min(thi, ihi + max(0, N * dhi))
                if ilo + min(0, N * dlo) >= tlo and ihi + max(0, N * dhi) <= thi:
                    # verify on a symbolic accumulator covering the whole candidate range
                    ok = True
                    outs = []
                    s0 = st.copy()
                    acc = ctx.mk_int(s0, clo, chi, init.ty, taint=tl(st, init.vid) if tl(st, init.vid) is not None else False)
                    with pinned(ctx, acc):
                        for item, _, s2 in it_next_abstract(E, s0, fr, bi, it):
                            if item is None:
                                continue
                            with pinned(ctx, item):
                                for r, s3 in call_closure(E, s2, fr, bi, fn_arg, fty, [acc, item]):
                                    if type(r) is not I:
                                        ok = False
                                        continue
                                    up, dn = s3.bound(r.vid, acc.vid), s3.bound(acc.vid, r.vid)
                                    if up is None or dn is None or up > dhi or -dn < dlo:
                                        ok = False
                                    outs.append((r, s3))
                    if ok and outs:
                        nlo = st.lo(n)
                        rlo = ilo + (nlo * dlo if dlo >= 0 else N * dlo)
                        rhi = ihi + (N * dhi if dhi >= 0 else nlo * dhi)
                        # the final state: effects of the step on other memory are those of the symbolic run(s), joined with "no step"
                        fin = st
                        tagk = (fr.id, ("fold", bi))
                        for r, s3 in outs:
                            stale = {x: ctx.fresh() for x in s3.itv if type(x) is tuple and len(x) >= 2 and x[0] == "j" and x[1] == tagk}
                            rename_bulk(s3, stale)
                            fin = join_states(ctx, fin, s3, tagk)
                        z = ctx.mk_int(fin, max(rlo, tlo), min(rhi, thi), init.ty, taint=True if any(tl(s3, r.vid) is not None for r, s3 in outs) else False)
                        return ret1(z, fin)
    # generic fixpoint; the accumulator lives in a scratch cell so that joins treat it like any other value
    key = ("h", "foldacc", fr.id, bi)
    cur = st
    cur.store[key] = init
    tagk = (fr.id, ("fold", bi))
    with pinned(ctx, it, fn_arg):
        for rnd in range(60):
            nxt = cur
            for item, _, s2 in it_next_abstract(E, cur, fr, bi, it):
                if item is None:
                    continue
                with pinned(ctx, item):
                    rs = call_closure(E, s2, fr, bi, fn_arg, fty, [s2.store[key], item])
                for r, s3 in rs:
                    s3.store[key] = r
                    stale = {x: ctx.fresh() for x in s3.itv if type(x) is tuple and len(x) >= 2 and x[0] == "j" and x[1] == tagk}
                    rename_bulk(s3, stale)
                    nxt = join_states(ctx, nxt, s3, tagk, widen=rnd >= 3)
            if nxt is cur or same_state(nxt, cur):
                acc = cur.store.pop(key)
                return [(acc, cur)]
            cur = nxt
    raise Unsupported("fold: no fixpoint")


def _fold_steps(E, st, fr, bi, states, c, n, it, fn_arg, fty, is_for_each):
    with pinned(E.ctx, n, it, fn_arg):
        for _ in range(c):
            nxt = []
            for acc, cur, s in states:
                with pinned(E.ctx, acc, cur):
                    outs = [o for o in it_next(E, s, fr, bi, cur) if o[0] is not None]
                for item, cur2, s2 in outs:
                    with pinned(E.ctx, acc, cur2, item):
                        rs = call_closure(E, s2, fr, bi, fn_arg, fty, [item] if is_for_each else [acc, item])
                    for r, s3 in rs:
                        nxt.append((UNIT if is_for_each else r, cur2, s3))
            states = nxt
            if len(states) > 8:
                raise Unsupported("fold: too many outcomes")
    return [(acc, s) for acc, _, s in states]


def m_array_from_fn(E, st, fr, bi, callee, args, dest_ty):
    """core::array::from_fn::<T, N, F>(f): [f(0), .., f(N-1)]"""
    from .absint import array_len
    t = E.prog.ty(dest_ty)
    if t.tag != "Array":
        return None
    n = array_len(t)
    if n is None or n > max(64, E.ctx.hooks.get("exact_collect_max", 64)):
        return None
    fty = None
    for g in fn_generic_types(callee):
        if E.prog.ty(g).tag in ("Closure", "FnDef", "FnPtr"):
            fty = g
    if fty is None:
        return None
    usz = E.ctx.usize_ty()
    states = [([], st)]
    for i in range(n):
        nxt = []
        for acc, s in states:
            with pinned(E.ctx, args[0], *acc):
                for r, s2 in call_closure(E, s, fr, bi, args[0], fty, [E.ctx.const_int(s, i, usz)]):
                    nxt.append((acc + [r], s2))
        states = nxt
        if len(states) > 8:
            raise Unsupported("from_fn: too many outcomes")
    outs = []
    for acc, s in states:
        elem = None
        for x in (acc if len(acc) <= 64 else acc[:1]):
            elem = x if elem is None else E.join_vals(s, elem, x)
        if len(acc) > 64:
            elem = E.havoc_value(s, elem)          # long exact arrays: the summary element is unconstrained, the heads carry the values
        outs.append((Sq(elem if elem is not None else BOT, E.ctx.const_int(s, n, usz), {i: x for i, x in enumerate(acc)}, None), s))
    return outs


def m_vec_pop(E, st, fr, bi, callee, args, dest_ty):
    p = args[0]
    s = as_seq(E, st, p)
    lo, hi = st.itv[s.len.vid]
    usz = E.ctx.usize_ty()
    outs = []
    n = st.const(s.len)
    if hi > 0:
        s2 = st.copy() if lo == 0 else st
        if n is not None and s.head and len(s.head) == n:
            item = s.head[n - 1]
            new = Sq(s.elem, E.ctx.const_int(s2, n - 1, usz), {k: v for k, v in s.head.items() if k < n - 1} or None, None)
        else:
            item = E._flat_elem(s2, s)
            nl = E.ctx.mk_int(s2, max(lo - 1, 0), hi - 1 if hi != INF else ISIZE_MAX, usz)
            s2.add_fact(nl.vid, s.len.vid, -1)
            new = Sq(s.elem, nl, None, None)
        write_through(E, s2, p, new)
        outs.append((En({SOME: (item,)}), s2))
    if lo == 0:
        outs.append((En({NONE: ()}), st))
    return outs


def m_iter_count(E, st, fr, bi, callee, args, dest_ty):
    it = iter_arg(E, st, args[0])
    if it.d["k"] == "filter":
        inner = it.d["inner"]
        n = it_len(E, st, inner)
        c = st.const(n)
        if c is None or c > 64:
            # the predicate is still analysed once, on an arbitrary item: its obligations (indexing, arithmetic) stand for every call
            with pinned(E.ctx, n, it):
                it_elem(E, st, fr, bi, Md("iter", {"k": "map", "inner": inner, "f": it.d["f"], "fty": it.d["fty"], "byref_item": True}))
            return ret1(E.ctx.mk_int(st, 0, st.hi(n), E.ctx.usize_ty()), st)
        lo = hi = 0
        cur, s = inner, st
        with pinned(E.ctx, it, n):
            for _ in range(c):
                with pinned(E.ctx, cur):
                    outs = [o for o in it_next(E, s, fr, bi, cur) if o[0] is not None]
                if len(outs) != 1:
                    raise Unsupported("filter.count over a non-deterministic iterator")
                item, cur, s = outs[0]
                key = ("h", "filter_item", fr.id, bi)
                s.store[key] = item
                with pinned(E.ctx, cur):
                    rs = call_closure(E, s, fr, bi, it.d["f"], it.d["fty"], [Pt(key)])
                if len(rs) != 1 or type(rs[0][0]) is not I:
                    raise Unsupported("filter predicate")
                r, s = rs[0]
                E.ctx.emit("filter_pred", frame=fr, bb=bi, item=item, result=r, st=s)
                rl, rh = s.itv[r.vid]
                lo += rl
                hi += rh
        return ret1(E.ctx.mk_int(s, lo, hi, E.ctx.usize_ty()), s)
    if it.d["k"] == "take_while":
        # length of the longest prefix on which the predicate holds: at least the leading items where it certainly holds, at
        # most the items before the first one where it certainly fails
        inner = it.d["inner"]
        n = it_len(E, st, inner)
        c = st.const(n)
        if c is None or c > 160:
            with pinned(E.ctx, n, it):
                it_elem(E, st, fr, bi, Md("iter", {"k": "map", "inner": inner, "f": it.d["f"], "fty": it.d["fty"], "byref_item": True}))
            return ret1(E.ctx.mk_int(st, 0, st.hi(n), E.ctx.usize_ty()), st)
        lo = hi = 0
        lo_open = True
        cur, s = inner, st
        with pinned(E.ctx, it, n):
            for _ in range(c):
                with pinned(E.ctx, cur):
                    outs = [o for o in it_next(E, s, fr, bi, cur) if o[0] is not None]
                if len(outs) != 1:
                    raise Unsupported("take_while.count over a non-deterministic iterator")
                item, cur, s = outs[0]
                key = ("h", "filter_item", fr.id, bi)
                s.store[key] = item
                with pinned(E.ctx, cur):
                    rs = call_closure(E, s, fr, bi, it.d["f"], it.d["fty"], [Pt(key)])
                if len(rs) != 1 or type(rs[0][0]) is not I:
                    raise Unsupported("take_while predicate")
                r, s = rs[0]
                E.ctx.emit("filter_pred", frame=fr, bb=bi, item=item, result=r, st=s)
                rl, rh = s.itv[r.vid]
                if rh == 0:
                    break
                hi += 1
                if rl == 1 and lo_open:
                    lo += 1
                else:
                    lo_open = False
        return ret1(E.ctx.mk_int(s, lo, hi, E.ctx.usize_ty()), s)
    return ret1(it_len(E, st, it), st)


def m_collect(E, st, fr, bi, callee, args, dest_ty):
    it = iter_arg(E, st, args[0])
    t = E.prog.ty(dest_ty)
    if t.tag == "Adt" and t.adt["name"] == "std::result::Result":
        okty = E.prog.ty(t.adt["variants"][OK]["fields"][0]["ty"])
        if not (okty.tag == "Adt" and okty.adt["name"] == "std::vec::Vec"):
            return None
        n = it_len(E, st, it)
        with pinned(E.ctx, n, it):
            item = it_elem(E, st, fr, bi, it)
        if item is None:
            return ret1(En({OK: (Sq(BOT, n, None, None),)}), st)
        if type(item) is not En:
            raise Unsupported("collect::<Result<..>> over non-Result items")
        vs = {}
        if OK in item.vs:
            vs[OK] = (Sq(item.vs[OK][0], n, None, None),)
        if ERR in item.vs:
            vs[ERR] = item.vs[ERR]
        if st.lo(n) == 0 and OK not in vs:
            vs[OK] = (Sq(BOT, n, None, None),)
        return ret1(En(vs), st)
    if not (t.tag == "Adt" and t.adt["name"] == "std::vec::Vec"):
        return None
    n = it_len(E, st, it)
    # exact small case: run the iterator concretely when its length is a small constant
    c = st.const(n)
    if c is not None and c <= E.ctx.hooks.get('exact_collect_max', 64):
        keep = max(64, E.ctx.hooks.get("keep_heads_max", 64))     # distinguished elements are kept up to this length
        items = []
        cur = it
        s = st.copy() if c > keep else st
        okk = True
        elem = None
        with pinned(E.ctx, n, it):
            for k_ in range(c):
                with pinned(E.ctx, cur, elem, *items[:64]):
                    outs = [o for o in it_next(E, s, fr, bi, cur) if o[0] is not None]
                if len(outs) != 1:
                    okk = False
                    break
                item, cur, s = outs[0]
                if type(item) is Pt:
                    item = deref(E, s, item) if False else item
                if c <= keep:
                    items.append(item)
                with pinned(E.ctx, item, elem):
                    elem = item if elem is None else E.join_vals(s, elem, item)
        if okk:
            if elem is None:
                return ret1(Sq(BOT, n, None, None), s)
            if c <= keep:
                return ret1(Sq(elem, n, {i: x for i, x in enumerate(items)}, None), s)
            return ret1(Sq(elem, n, None, None), s)
    with pinned(E.ctx, n, it):
        item = it_elem(E, st, fr, bi, it)
    return ret1(Sq(item if item is not None else BOT, n, None, None), st)


def m_for_each_opaque(E, st, fr, bi, callee, args, dest_ty):
    return None


# ---------------------------------------------------------------------------------- bit-vec
def m_bitvec_from_bytes(E, st, fr, bi, callee, args, dest_ty):
    s = as_seq(E, st, args[0])
    eight = usize(E, st, 8)
    ln = E.binop(st, "Mul", s.len, eight, E.ctx.usize_ty(), False)
    d = {"len": ln}
    if s.head:
        d["src"] = s          # bytes at constant positions: lets get()/index() decide bits that are known
    return ret1(Md("bitvec", d), st)


def m_bitvec_new(E, st, fr, bi, callee, args, dest_ty):
    return ret1(Md("bitvec", {"len": usize(E, st, 0)}), st)


def m_bitvec_len(E, st, fr, bi, callee, args, dest_ty):
    b = deref2(E, st, args[0])
    return ret1(b.d["len"], st)


def known_bit(E, st, b, idx):
    """0 / 1 when the bit at a constant position of a BitVec built from bytes is determined by what is known about
    that byte (a constant, or known bits recorded as provenance ("kbits", (), (mask, value))); else None.
    bit-vec's from_bytes puts the most significant bit of each byte first."""
    src = b.d.get("src")
    i = st.const(idx) if type(idx) is I else None
    if src is None or i is None or not src.head or (i // 8) not in src.head:
        return None
    byte = src.head[i // 8]
    if type(byte) is not I or byte.vid not in st.itv:
        return None
    sh = 7 - (i % 8)
    lo, hi = st.itv[byte.vid]
    if lo == hi:
        return (lo >> sh) & 1
    p = st.prov.get(byte.vid)
    if p and p[0] == "kbits":
        mask, val = p[2]
        if (mask >> sh) & 1:
            return (val >> sh) & 1
    return None


def m_bitvec_index(E, st, fr, bi, callee, args, dest_ty):
    b = deref2(E, st, args[0])
    idx = args[1]
    ok = lt_proved(E, st, idx, b.d["len"])
    a = fr.body.blocks[bi]["terminator"]["kind"]["Call"]["args"]
    obligation(E, fr, bi, "BoundsCheck", ok, f"bit index {st.itv[idx.vid]} vs len {st.itv[b.d['len'].vid]}",
               f"{E.role_of(fr, a[1])} < len({E.role_of(fr, a[0])})")
    if not ok:
        E.assume_cmp(st, "Lt", idx.vid, b.d["len"].vid)
    key = ("h", "bit", fr.id, bi)
    kb = known_bit(E, st, b, idx)
    st.store[key] = E.ctx.mk_int(st, 0 if kb is None else kb, 1 if kb is None else kb, E.ctx.bool_ty(), taint=True)
    return ret1(Pt(key), st)


def m_bitvec_get(E, st, fr, bi, callee, args, dest_ty):
    b = deref2(E, st, args[0])
    idx = args[1]
    r = E.decide_cmp(st, "Lt", idx, b.d["len"])
    vs = {}
    if r is not False:
        kb = known_bit(E, st, b, idx)
        vs[SOME] = (E.ctx.mk_int(st, 0 if kb is None else kb, 1 if kb is None else kb, E.ctx.bool_ty(), taint=True),)
    if r is not True:
        vs[NONE] = ()
    return ret1(En(vs), st)


def m_bitvec_push(E, st, fr, bi, callee, args, dest_ty):
    b = deref2(E, st, args[0])
    one = usize(E, st, 1)
    write_through(E, st, args[0], Md("bitvec", {"len": E.binop(st, "Add", b.d["len"], one, E.ctx.usize_ty(), False)}))
    return ret1(UNIT, st)


def m_bitvec_append(E, st, fr, bi, callee, args, dest_ty):
    a = deref2(E, st, args[0])
    b = deref2(E, st, args[1])
    write_through(E, st, args[0], Md("bitvec", {"len": E.binop(st, "Add", a.d["len"], b.d["len"], E.ctx.usize_ty(), False)}))
    write_through(E, st, args[1], Md("bitvec", {"len": usize(E, st, 0)}))
    return ret1(UNIT, st)


def m_bitvec_iter(E, st, fr, bi, callee, args, dest_ty):
    b = deref2(E, st, args[0])
    d = {"k": "bits", "pos": usize(E, st, 0), "end": b.d["len"]}
    if b.d.get("src") is not None:
        d["src"] = b.d["src"]
    return ret1(Md("iter", d), st)


def m_bitvec_to_bytes(E, st, fr, bi, callee, args, dest_ty):
    b = deref2(E, st, args[0])
    seven = usize(E, st, 7)
    eight = usize(E, st, 8)
    usz = E.ctx.usize_ty()
    n = E.binop(st, "Div", E.binop(st, "Add", b.d["len"], seven, usz, False), eight, usz, False)
    u8 = E.ctx.ty_by_str("u8")
    return ret1(Sq(E.ctx.top_int(st, u8, taint=True), n, None, None), st)


def m_bitvec_from_iter(E, st, fr, bi, callee, args, dest_ty):
    it = iter_arg(E, st, args[0])
    return ret1(Md("bitvec", {"len": it_len(E, st, it)}), st)


# ---------------------------------------------------------------------------------- numbers
def m_div_mod_floor(E, st, fr, bi, callee, args, dest_ty):
    a = deref2(E, st, args[0])
    b = deref2(E, st, args[1])
    if type(a) is not I or type(b) is not I:
        raise Unsupported("div_mod_floor operands")
    if st.lo(a) < 0 or st.lo(b) <= 0:
        raise Unsupported("div_mod_floor on possibly negative / zero")
    q = E.binop(st, "Div", a, b, a.ty, False)
    m = E.binop(st, "Rem", a, b, a.ty, False)
    return ret1(Ag((q, m)), st)


def m_int_unary(kind):
    def f(E, st, fr, bi, callee, args, dest_ty):
        a = args[0]
        if type(a) is not I:
            raise Unsupported(kind)
        lo, hi = st.itv[a.vid]
        if kind == "unsigned_abs":
            if lo >= 0:
                r = (lo, hi)
            elif hi <= 0:
                r = (-hi, -lo)
            else:
                r = (0, max(-lo, hi))
            z = E.ctx.mk_int(st, r[0], r[1], dest_ty, taint=tl(st, a.vid))
            st.prov[z.vid] = ("abs", (a.vid,), None)
            return ret1(z, st)
        if kind == "ilog2":
            ok = lo > 0
            obligation(E, fr, bi, "ilog2", ok, f"argument {st.itv[a.vid]}", "ilog2 argument > 0")
            lo2 = max(lo, 1)
            return ret1(E.ctx.mk_int(st, lo2.bit_length() - 1, max(hi, 1).bit_length() - 1, dest_ty, taint=tl(st, a.vid)), st)
        if kind == "checked_ilog2":
            t = E.prog.ty(dest_ty)
            u32 = t.adt["variants"][SOME]["fields"][0]["ty"]
            vs = {}
            if hi > 0:
                vs[SOME] = (E.ctx.mk_int(st, max(lo, 1).bit_length() - 1, hi.bit_length() - 1, u32, taint=tl(st, a.vid)),)
            if lo <= 0:
                vs[NONE] = ()
            return ret1(En(vs), st)
        raise Unsupported(kind)
    f.__name__ = f"m_{kind}"
    return f



def m_int_arith(kind, op):
    """wrapping_* / saturating_* / checked_* on machine integers (intervals only)"""
    def f(E, st, fr, bi, callee, args, dest_ty):
        a, b = args
        if type(a) is not I or type(b) is not I:
            raise Unsupported(kind)
        if kind == "wrapping":
            tlo_, thi_ = E.prog.ty(dest_ty).int_range()
            la_, ha_ = st.itv[a.vid]
            lb_, hb_ = st.itv[b.vid]
            if op == "Sub" and tlo_ == 0 and la_ - hb_ < 0 <= ha_ - lb_ and len(st.part) < E.ctx.max_parts_branch:
                # an unsigned wrapping subtraction that may or may not wrap: the two cases apart (no wrap: a - b; wrap: a - b + 2^W),
                # so that `s.min(s.wrapping_sub(q))` and similar branch-free selections are followed exactly
                outs = []
                s1 = st.copy()
                try:
                    E.assume_cmp(s1, "Ge", a.vid, b.vid)
                    outs.append((E.binop(s1, "Sub", a, b, dest_ty, False), s1))
                except Diverge:
                    pass
                s2 = st
                try:
                    E.assume_cmp(s2, "Lt", a.vid, b.vid)
                    d_ = E.binop(s2, "Sub", b, a, dest_ty, False)                     # b - a in [1, ..]
                    top = E.ctx.const_int(s2, thi_, dest_ty)
                    w_ = E.binop(s2, "Sub", top, d_, dest_ty, False)                   # 2^W - 1 - (b - a)
                    outs.append((E.binop(s2, "Add", w_, E.ctx.const_int(s2, 1, dest_ty), dest_ty, False), s2))
                except Diverge:
                    pass
                if outs:
                    return outs
            return ret1(E.binop(st, op, a, b, dest_ty, False), st)
        t = E.prog.ty(dest_ty)
        ity = dest_ty if kind == "saturating" else t.adt["variants"][SOME]["fields"][0]["ty"]
        tlo, thi = E.prog.ty(ity).int_range()
        la, ha = st.itv[a.vid]
        lb, hb = st.itv[b.vid]
        if op == "Add":
            lo, hi = la + lb, ha + hb
        elif op == "Sub":
            lo, hi = la - hb, ha - lb
        else:
            cs = [x * y for x in (la, ha) for y in (lb, hb)]
            lo, hi = min(cs), max(cs)
        tt = (tl(st, a.vid) or EMPTY) | (tl(st, b.vid) or EMPTY)
        if kind == "saturating":
            return ret1(E.ctx.mk_int(st, max(tlo, min(thi, lo)), max(tlo, min(thi, hi)), ity, taint=tt or False), st)
        if op == "Sub" and tlo == 0 and lo < 0 <= hi:
            # unsigned checked_sub that may or may not underflow: one outcome per case, each with the operands refined
            outs = []
            for some in (True, False):
                s2 = st.copy()
                try:
                    E.assume_cmp(s2, "Ge" if some else "Lt", a.vid, b.vid)
                except Diverge:
                    continue
                outs.append((En({SOME: (E.binop(s2, "Sub", a, b, ity, False),)}) if some else En({NONE: ()}), s2))
            return outs
        vs = {}
        if hi >= tlo and lo <= thi:
            if tlo <= lo and hi <= thi:
                vs[SOME] = (E.binop(st, op, a, b, ity, False),)
            else:
                vs[SOME] = (E.ctx.mk_int(st, max(lo, tlo), min(hi, thi), ity, taint=tt or False),)
        if lo < tlo or hi > thi:
            vs[NONE] = ()
        return ret1(En(vs), st)
    f.__name__ = f"m_{kind}_{op}"
    return f


def m_option_eq(E, st, fr, bi, callee, args, dest_ty):
    """<Option<T> as PartialEq>::eq / ne for scalar T"""
    a, b = deref2(E, st, args[0]), deref2(E, st, args[1])
    ne = callee.name.endswith("::ne")
    if type(a) is not En or type(b) is not En:
        return None
    r = None
    ka, kb = set(a.vs), set(b.vs)
    if not (ka & kb):
        r = False
    elif ka == kb and len(ka) == 1:
        k = next(iter(ka))
        if not a.vs[k]:
            r = True
        elif len(a.vs[k]) == 1:
            x, y = a.vs[k][0], b.vs[k][0]
            try:
                if type(x) is Pt:
                    x = deref2(E, st, x)          # Option<&T>: references compare by value
                if type(y) is Pt:
                    y = deref2(E, st, y)
            except (Unsupported, Diverge):
                x = y = None
            if type(x) is I and type(y) is I:
                r = E.decide_cmp(st, "Eq", x, y)
    if r is not None and ne:
        r = not r
    return ret1(E.mkbool(st, None if r is None else int(r)), st)


def m_option_from_residual(E, st, fr, bi, callee, args, dest_ty):
    # `?` on an Option: the residual Option<Infallible> can only be None
    return ret1(En({NONE: ()}), st)


def m_from_bool(E, st, fr, bi, callee, args, dest_ty):
    """<uN as From<bool>>::from(b): the branch-free idiom `(cond) as int` written as a call — the two cases apart, with the
    condition decided in each"""
    b = args[0]
    if type(b) is not I:
        return None
    lo, hi = st.itv[b.vid]
    if lo == hi:
        return ret1(E.ctx.const_int(st, lo, dest_ty), st)
    outs = []
    for val in (0, 1):
        s2 = st.copy() if val == 0 else st
        try:
            E.set_itv(s2, b.vid, val, val)
            if len(st.part) < E.ctx.max_parts:
                s2.part = st.part + ((bi, "frombool", val),)          # kept apart like the `(cond) as int` idiom
            outs.append((E.ctx.const_int(s2, val, dest_ty), s2))
        except Diverge:
            pass
    return outs


def m_is_power_of_two(E, st, fr, bi, callee, args, dest_ty):
    """uN::is_power_of_two: decided for constants; otherwise two outcomes, `true` with the value refined to the range's
    powers of two when only one lies in the interval"""
    a = args[0]
    if type(a) is not I:
        return None
    lo, hi = st.itv[a.vid]
    pows = [1 << k for k in range(0, 128) if lo <= (1 << k) <= hi]
    if lo == hi:
        return ret1(E.ctx.const_int(st, 1 if pows else 0, dest_ty), st)
    outs = []
    if pows:
        s2 = st.copy()
        try:
            E.set_itv(s2, a.vid, pows[0], pows[-1])
            outs.append((E.ctx.const_int(s2, 1, dest_ty), s2))
        except Diverge:
            pass
    outs.append((E.ctx.const_int(st, 0, dest_ty), st))
    return outs


def m_int_abs(E, st, fr, bi, callee, args, dest_ty):
    a = args[0]
    if type(a) is not I:
        raise Unsupported("abs")
    lo, hi = st.itv[a.vid]
    tlo, thi = E.prog.ty(dest_ty).int_range()
    obligation(E, fr, bi, "Overflow", lo > tlo, f"abs of {st.itv[a.vid]}", "abs(x), x != MIN")
    lo = max(lo, tlo + 1)
    r = (lo, hi) if lo >= 0 else ((-hi, -lo) if hi <= 0 else (0, max(-lo, hi)))
    z = E.ctx.mk_int(st, r[0], r[1], dest_ty, taint=tl(st, a.vid))
    st.prov[z.vid] = ("abs", (a.vid,), None)
    return ret1(z, st)


def m_int_bits(kind):
    def f(E, st, fr, bi, callee, args, dest_ty):
        a = args[0]
        if type(a) is not I:
            raise Unsupported(kind)
        bits = E.prog.ty(a.ty).bits()
        lo, hi = st.itv[a.vid]
        if lo == hi and lo >= 0:
            v = {"leading_zeros": bits - lo.bit_length(), "trailing_zeros": (bits if lo == 0 else (lo & -lo).bit_length() - 1), "count_ones": bin(lo).count("1")}[kind]
            return ret1(E.ctx.const_int(st, v, dest_ty), st)
        if kind == "leading_zeros" and lo >= 0:
            return ret1(E.ctx.mk_int(st, bits - hi.bit_length(), bits - lo.bit_length(), dest_ty, taint=tl(st, a.vid)), st)
        return ret1(E.ctx.mk_int(st, 0, bits, dest_ty, taint=tl(st, a.vid)), st)
    f.__name__ = f"m_{kind}"
    return f


def m_overflowing(op):
    def f(E, st, fr, bi, callee, args, dest_ty):
        a, b = args
        t = E.prog.ty(dest_ty)
        ity = t.arg[0]
        if op == "Sub" and type(a) is I and type(b) is I and E.prog.ty(ity).tag == "Uint":
            r = E.decide_cmp(st, "Ge", a, b)
            outs = []
            can_part = len(st.part) < E.ctx.max_parts and bi not in E.cyclic_blocks(fr.body)
            for truth in ((True,) if r is True else (False,) if r is False else (True, False)):
                s2 = st if r is not None else st.copy()
                try:
                    if r is None:
                        E.assume_cmp(s2, "Ge" if truth else "Lt", a.vid, b.vid)
                except Diverge:
                    continue
                if truth:
                    z = E.binop(s2, "Sub", a, b, dest_ty, True).f[0]
                    outs.append((Ag((z, E.mkbool(s2, 0))), s2))
                else:
                    w = E.binop(s2, "Sub", a, b, ity, False)
                    outs.append((Ag((w, E.mkbool(s2, 1))), s2))
                if r is None and can_part:
                    s2.part = st.part + ((bi, "ovf", truth),)
            return outs
        r = E.binop(st, op, a, b, dest_ty, True)   # (clipped result, overflow flag)
        z, ovf = r.f
        if st.itv[ovf.vid] == (0, 0):
            return ret1(Ag((z, ovf)), st)
        w = E.binop(st, op, a, b, ity, False)
        return ret1(Ag((w, ovf)), st)
    f.__name__ = f"m_overflowing_{op}"
    return f


def m_minmax(kind):
    def f(E, st, fr, bi, callee, args, dest_ty):
        a, b = args
        if type(a) is not I or type(b) is not I:
            raise Unsupported(kind)
        if kind == "min":
            return ret1(int_min(E, st, a, b), st)
        if E.decide_cmp(st, "Ge", a, b) is True:
            return ret1(a, st)
        if E.decide_cmp(st, "Ge", b, a) is True:
            return ret1(b, st)
        ta, tb_ = tl(st, a.vid), tl(st, b.vid)
        m = E.ctx.mk_int(st, max(st.lo(a), st.lo(b)), max(st.hi(a), st.hi(b)), a.ty, taint=((ta or EMPTY) | (tb_ or EMPTY)) if (ta is not None or tb_ is not None) else False)
        st.add_fact(a.vid, m.vid, 0)
        st.add_fact(b.vid, m.vid, 0)
        return ret1(m, st)
    f.__name__ = f"m_{kind}"
    return f


def m_to_bytes_int(endian):
    """uN / iN ::to_be_bytes / to_le_bytes -> [u8; N]: per byte, the known bits of the value (constants, known-bits values) or
    the byte's range implied by the interval"""
    def f(E, st, fr, bi, callee, args, dest_ty):
        x = args[0]
        if type(x) is not I:
            return None
        t = E.prog.ty(x.ty)
        if t.tag not in ("Int", "Uint"):
            return None
        W = t.bits()
        n = W // 8
        u8 = E.ctx.ty_by_str("u8")
        taint = tl(st, x.vid)
        kb = E.kb_of(st, x, W)
        lo, hi = st.itv[x.vid]
        heads = {}
        for j in range(n):                     # j = 0: least significant byte
            if kb is not None:
                b = E.kbits_value(st, (kb[0] >> (8 * j)) & 0xFF, (kb[1] >> (8 * j)) & 0xFF, u8, taint if taint is not None else False)
            elif lo >= 0 and hi < (1 << (8 * j)):
                b = E.ctx.const_int(st, 0, u8)
            elif lo >= 0 and j == 0 and hi < 256:
                b = E.ctx.mk_int(st, lo, hi, u8, taint=taint if taint is not None else False)
            else:
                b = E.ctx.mk_int(st, 0, 255, u8, taint=taint if taint is not None else False)
            if lo >= 0 and hi < (1 << W) and type(b) is I:
                # the interval bounds byte j too: exactly for the bytes above which the value does not vary
                top_lo, top_hi = lo >> (8 * (j + 1)), hi >> (8 * (j + 1))
                if top_lo == top_hi:
                    bl, bh = (lo >> (8 * j)) & 0xFF, (hi >> (8 * j)) & 0xFF
                    cl, ch = st.itv[b.vid]
                    nl, nh = max(cl, bl), min(ch, bh)
                    if nl <= nh and (nl, nh) != (cl, ch):
                        try:
                            E.set_itv(st, b.vid, nl, nh)
                        except Diverge:
                            pass
            heads[(n - 1 - j) if endian == "be" else j] = b
        elem = None
        for b in heads.values():
            elem = b if elem is None else E.join_vals(st, elem, b)
        return ret1(Sq(elem, E.ctx.const_int(st, n, E.ctx.usize_ty()), heads, None), st)
    f.__name__ = f"m_to_{endian}_bytes"
    return f


def m_from_bytes_int(endian):
    def f(E, st, fr, bi, callee, args, dest_ty):
        s = args[0]
        if type(s) is not Sq:
            raise Unsupported("from_xx_bytes arg")
        n = st.const(s.len)
        tlo, thi = E.ctx.int_range(dest_ty)
        if s.head and n is not None and len(s.head) == n:
            order = range(n) if endian == "be" else range(n - 1, -1, -1)
            lo = hi = 0
            taint = None
            for k in order:
                b = s.head[k]
                bl, bh = st.itv[b.vid]
                lo = (lo << 8) | bl
                hi = (hi << 8) | bh
                tb_ = tl(st, b.vid)
                taint = taint if tb_ is None else ((taint or EMPTY) | tb_)
            if tlo <= lo and hi <= thi:
                return ret1(E.ctx.mk_int(st, lo, hi, dest_ty, taint=taint), st)
        return ret1(E.ctx.top_int(st, dest_ty, taint=True), st)
    f.__name__ = f"m_from_{endian}_bytes"
    return f


def m_float_unary(kind):
    import math

    def f(E, st, fr, bi, callee, args, dest_ty):
        a = args[0]
        if type(a) is not Fl:
            return ret1(Fl(-INF, INF, True), st)
        tag = (kind, a.tag if a.tag is not None else (a.lo if a.lo == a.hi else None))
        if a.nan or a.lo == -INF or a.hi == INF:
            if kind == "sqrt":
                return ret1(Fl(0.0, INF, True, tag), st)
            return ret1(Fl(-INF, INF, a.nan, tag), st)
        if kind == "floor":
            return ret1(Fl(float(math.floor(a.lo)), float(math.floor(a.hi)), False, tag), st)
        if kind == "ceil":
            return ret1(Fl(float(math.ceil(a.lo)), float(math.ceil(a.hi)), False, tag), st)
        if kind == "trunc":
            return ret1(Fl(float(math.trunc(a.lo)), float(math.trunc(a.hi)), False, tag), st)
        if kind == "round":
            r = lambda x: float(math.floor(abs(x) + 0.5)) * (1 if x >= 0 else -1)
            return ret1(Fl(r(a.lo), r(a.hi), False, tag), st)
        if kind == "sqrt":
            if a.lo < 0:
                return ret1(Fl(0.0, math.sqrt(max(a.hi, 0.0)), True, tag), st)
            return ret1(Fl(math.sqrt(a.lo), math.sqrt(a.hi), False, tag), st)
        if kind == "abs":
            lo = 0.0 if a.lo <= 0 <= a.hi else min(abs(a.lo), abs(a.hi))
            return ret1(Fl(lo, max(abs(a.lo), abs(a.hi)), False, tag), st)
        return ret1(Fl(-INF, INF, True, tag), st)
    f.__name__ = f"m_f64_{kind}"
    return f


def m_f64_minmax(kind):
    def f(E, st, fr, bi, callee, args, dest_ty):
        a, b = args
        if type(a) is not Fl or type(b) is not Fl:
            return ret1(Fl(-INF, INF, True), st)
        if kind == "max":
            return ret1(Fl(max(a.lo, b.lo), max(a.hi, b.hi), a.nan and b.nan, ("fmax", a.tag, b.tag)), st)
        return ret1(Fl(min(a.lo, b.lo), min(a.hi, b.hi), a.nan and b.nan, ("fmin", a.tag, b.tag)), st)
    f.__name__ = f"m_f64_{kind}"
    return f


# ---------------------------------------------------------------------------------- entropy / hash
def m_thread_rng(E, st, fr, bi, callee, args, dest_ty):
    return ret1(Md("rng", {"origin": "thread_rng", "site": (fr.inst.name, bi)}), st)


def m_rng_from_seed(E, st, fr, bi, callee, args, dest_ty):
    return ret1(Md("rng", {"origin": "from_seed", "seed": args[0], "site": (fr.inst.name, bi)}), st)


def m_fill_bytes(E, st, fr, bi, callee, args, dest_ty):
    rng = deref2(E, st, args[0])
    buf = args[1]
    u8 = E.ctx.ty_by_str("u8")
    origin = rng.d.get("origin") if type(rng) is Md else None
    lab = frozenset({("entropy", origin, rng.d.get("site") if type(rng) is Md else None, (fr.inst.name, bi))})
    if type(buf) is Md and buf.kind == "mslice":
        # a mutable window (`&mut r[..20]`, one half of split_at_mut): the window's positions of the parent become draws
        n = st.const(buf.d["len"])
        src = Sq(E.ctx.top_int(st, u8, taint=lab), buf.d["len"], {i: E.ctx.top_int(st, u8, taint=lab) for i in range(n)} if n is not None and n <= 64 else None, None)
        E.ctx.emit("entropy", frame=fr, bb=bi, rng=rng, buf=buf, seq=src, st=st, what="fill_bytes")
        mslice_write(E, st, buf, src)
        return ret1(UNIT, st)
    s = as_seq(E, st, buf)
    E.ctx.emit("entropy", frame=fr, bb=bi, rng=rng, buf=buf, seq=s, st=st, what="fill_bytes")
    new = Sq(E.ctx.top_int(st, u8, taint=lab), s.len, None, None)
    p = buf
    while type(p) is Pt and p.key is not None and type(E.load(st, p.key, p.proj)) is Pt:
        p = E.load(st, p.key, p.proj)
    write_through(E, st, p, new)
    return ret1(UNIT, st)


def m_rng_gen(E, st, fr, bi, callee, args, dest_ty):
    rng = deref2(E, st, args[0]) if args else None
    E.ctx.emit("entropy", frame=fr, bb=bi, rng=rng, buf=None, seq=None, st=st, what="gen")
    lab = frozenset({("entropy", rng.d.get("origin") if type(rng) is Md else None, rng.d.get("site") if type(rng) is Md else None, (fr.inst.name, bi))})
    return ret1(E.ctx.top_value(st, dest_ty, taint=lab), st)


def m_shake_default(E, st, fr, bi, callee, args, dest_ty):
    return ret1(Md("shake", {"absorbed": 0, "site": (fr.inst.name, bi)}), st)


def m_shake_update(E, st, fr, bi, callee, args, dest_ty):
    h = deref2(E, st, args[0])
    s = as_seq(E, st, args[1])
    E.ctx.emit("absorb", frame=fr, bb=bi, hasher=h, data=args[1], seq=s, st=st)
    labs = set(h.d.get("labels", ()))
    from .absint import iter_ints
    for _, i in iter_ints(s):
        labs |= set(st.taint.get(i.vid, ()))
    write_through(E, st, args[0], Md("shake", {"absorbed": h.d.get("absorbed", 0) + 1, "site": h.d.get("site"), "labels": frozenset(labs)}))
    return ret1(UNIT, st)


def m_shake_finalize(E, st, fr, bi, callee, args, dest_ty):
    h = args[0]
    return ret1(Md("xof", {"absorbed": h.d.get("absorbed") if type(h) is Md else None, "labels": h.d.get("labels", frozenset()) if type(h) is Md else frozenset(),
                           "pos": usize(E, st, 0)}), st)


def m_xof_read(E, st, fr, bi, callee, args, dest_ty):
    buf = args[1]
    s = as_seq(E, st, buf)
    u8 = E.ctx.ty_by_str("u8")
    E.ctx.emit("squeeze", frame=fr, bb=bi, seq=s, st=st)
    n = st.const(s.len)
    hook = E.ctx.hooks.get("xof_bytes")
    rd = deref2(E, st, args[0])
    lab = (rd.d.get("labels") or EMPTY) if type(rd) is Md else EMPTY
    lab = frozenset(("H", l) for l in lab)      # output of the hash of the labelled inputs
    # position in the output stream (bytes squeezed so far): rules may pin stream bytes by absolute position
    pos = rd.d.get("pos") if type(rd) is Md else None
    pc = st.const(pos) if type(pos) is I else None
    stream = E.ctx.hooks.get("xof_stream")

    def byte(i):
        if hook:
            return E.ctx.mk_int(st, *hook(i), u8, taint=lab)
        if stream and pc is not None:
            return E.ctx.mk_int(st, *stream(pc + i), u8, taint=lab)
        return E.ctx.top_int(st, u8, taint=lab)
    if n is not None and n <= 64:
        head = {i: byte(i) for i in range(n)}
        new = Sq(E.ctx.top_int(st, u8, taint=lab), s.len, head, None)
    else:
        new = Sq(E.ctx.top_int(st, u8, taint=lab), s.len, None, None)
    if type(pos) is I and type(args[0]) is Pt and args[0].key is not None:
        d = dict(rd.d)
        d["pos"] = E.binop(st, "Add", pos, s.len, E.ctx.usize_ty(), False)
        try:
            write_through(E, st, args[0], Md("xof", d))
        except Unsupported:
            pass
    p = buf
    while type(p) is Pt and p.key is not None and type(E.load(st, p.key, p.proj)) is Pt:
        p = E.load(st, p.key, p.proj)
    write_through(E, st, p, new)
    return ret1(UNIT, st)


def m_transform_assumed(E, st, fr, bi, callee, args, dest_ty):
    """only active when a rule sets hooks['assume_transform'] (quick tier, n = 1024): the in-place NTT
    keeps the slice length and yields canonical field elements (C12); its own index arithmetic is an
    explicit *assumed* obligation."""
    reason = E.ctx.hooks.get("assume_transform")
    if not reason:
        return None
    s = as_seq(E, st, args[0])
    E.ctx.obligation("transform-layer", fr, bi, False, f"index arithmetic of {callee.name.split('::')[-1]} at len {st.itv[s.len.vid]} not analysed in this tier", callee.name.split("::")[-1]).assumed = reason
    u32 = E.ctx.ty_by_str("u32")
    from .absint import iter_ints
    labs = set()
    for _, i in iter_ints(s.elem):
        labs |= set(st.taint.get(i.vid, ()))
    new = Sq(Ag((E.ctx.mk_int(st, 0, 12288, u32, taint=frozenset(labs)),)), s.len, None, None)
    p = args[0]
    while type(p) is Pt and p.key is not None and type(E.load(st, p.key, p.proj)) is Pt:
        p = E.load(st, p.key, p.proj)
    write_through(E, st, p, new)
    return ret1(UNIT, st)


def m_box_new_uninit(E, st, fr, bi, callee, args, dest_ty):
    # Box::<[T; N]>::new_uninit(): the `vec![a, b, ..]` lowering writes the array through the raw pointer
    # (MaybeUninit { uninit, value: ManuallyDrop { value: MaybeDangling(T) } }) and then calls
    # box_assume_init_into_vec_unsafe
    key = ("h", "boxuninit", fr.id, bi)
    st.store[key] = Ag((UNIT, Ag((Ag((Top(None),)),))))
    return ret1(Md("box", {"ptr": Pt(key, (), True), "uninit": True}), st)


def m_box_new(E, st, fr, bi, callee, args, dest_ty):
    """Box::new(x): a fresh heap cell per allocation (numbered within the state, so two live boxes from one
    site stay distinct); the Box value is the model `box` that Deref / transmute-to-pointer understand"""
    n = 0
    while ("h", "box", fr.id, bi, n) in st.store:
        n += 1
        if n > 64:
            raise Unsupported("Box::new: more than 64 live allocations from one site")
    key = ("h", "box", fr.id, bi, n)
    st.store[key] = args[0]
    return ret1(Md("box", {"ptr": Pt(key, (), True)}), st)


def m_box_into_vec(E, st, fr, bi, callee, args, dest_ty):
    b = args[0]
    if type(b) is not Md or b.kind != "box":
        raise Unsupported("into_vec of non-box")
    cell = E.load(st, b.d["ptr"].key, b.d["ptr"].proj)
    try:
        arr = cell.f[1].f[0].f[0] if b.d.get("uninit") else cell
    except Exception:
        raise Unsupported("box layout")
    if type(arr) is not Sq:
        raise Unsupported("boxed value is not an array")
    return ret1(Sq(arr.elem, arr.len, arr.head, None), st)


# ---------------------------------------------------------------------------------- registry
def build(ctx):
    M = Models(ctx)
    M.types.append((lambda n: n == "std::vec::Vec", top_vec))
    M.types.append((lambda n: n == "bit_vec::BitVec", top_bitvec))
    M.types.append((lambda n: n in ("rand::prelude::ThreadRng", "rand::rngs::ThreadRng", "rand::rngs::StdRng", "rand::prelude::StdRng"), top_opaque("rng")))
    A = M.add
    V = r"std::vec::Vec::<[^>]*(?:<[^>]*>[^>]*)*>::"
    A(r"^std::vec::Vec::<.*>::new$", m_vec_new)
    A(r"^std::vec::Vec::<.*>::with_capacity$", m_vec_with_capacity)
    A(r"^std::vec::Vec::<.*>::extend_from_slice$", m_vec_extend_from_slice)
    A(r"^std::vec::Vec::<.*>::len$", m_vec_len)
    A(r"^std::vec::Vec::<.*>::is_empty$", m_is_empty)
    A(r"^std::vec::Vec::<.*>::push$", m_vec_push)
    A(r"^std::vec::Vec::<.*>::(as_slice|as_mut_slice)$", m_deref_seq)
    A(r"^<std::vec::Vec<.*> as std::ops::Deref(Mut)?>::deref(_mut)?$", m_deref_seq)
    A(r"^<std::vec::Vec<.*> as std::clone::Clone>::clone$", m_clone_seq)
    A(r"^<std::vec::Vec<.*> as std::ops::Index(Mut)?<usize>>::index(_mut)?$", m_index_usize)
    A(r"^<std::vec::Vec<.*> as std::ops::Index(Mut)?<std::ops::Range\w*<usize>>>::index(_mut)?$", m_index_range)
    A(r"^(core|std)::slice::index::<impl std::ops::Index(Mut)?<std::ops::Range\w*(<usize>)?> for \[.*\]>::index(_mut)?$", m_index_range)
    A(r"^<std::vec::Vec<.*> as std::iter::IntoIterator>::into_iter$", m_vec_into_iter)
    A(r"^<&(mut )?std::vec::Vec<.*> as std::iter::IntoIterator>::into_iter$", m_slice_iter)
    A(r"^std::vec::from_elem::<", m_from_elem)
    A(r"^(core|std)::slice::<impl \[.*\]>::to_vec$", m_to_vec)
    A(r"^(core|std)::slice::<impl \[.*\]>::len$", m_slice_len)
    A(r"^(core|std)::slice::<impl \[.*\]>::is_empty$", m_is_empty)
    A(r"^(core|std)::slice::<impl \[.*\]>::(iter|iter_mut)$", m_slice_iter)
    A(r"^(core|std)::slice::<impl \[.*\]>::concat::<", m_concat)
    A(r"^<&(mut )?\[.*\] as std::iter::IntoIterator>::into_iter$", m_slice_iter)
    A(r"^(core|std)::slice::iter::<impl std::iter::IntoIterator for &(mut )?\[.*\]>::into_iter$", m_slice_iter)
    A(r"^(core|std)::array::<impl std::iter::IntoIterator for &(mut )?\[.*\]>::into_iter$", m_slice_iter)
    A(r"^(core|std)::array::<impl std::iter::IntoIterator for \[.*\]>::into_iter$", m_vec_into_iter)
    A(r"^(core|std)::array::<impl std::convert::TryFrom<.*> for \[.*\]>::try_from$", m_try_from_slice_array)
    A(r"^<.* as std::convert::TryInto<\[.*\]>>::try_into$", m_try_from_slice_array)
    A(r"^<std::vec::Vec<.*> as std::convert::TryInto<\[.*\]>>::try_into$", m_try_from_slice_array)
    A(r"^<\[.*\] as std::convert::TryFrom<std::vec::Vec<.*>>>::try_from$", m_try_from_slice_array)
    # iterators
    A(r"^(core|std)::iter::range::<impl std::iter::Iterator for std::ops::Range<.*>>::next$", m_iter_next)
    A(r"^(core|std)::iter::range::<impl std::iter::Iterator for std::ops::RangeInclusive<.*>>::next$", m_range_inclusive_next)
    A(r"^<std::(slice|vec|iter|array)::.* as std::iter::Iterator>::next$", m_iter_next)
    A(r"^<bit_vec::Iter<.*> as std::iter::Iterator>::next$", m_iter_next)
    A(r"^core::slice::<impl \[.*\]>::chunks$", m_slice_chunks)
    A(r"^(core|std)::slice::<impl \[.*\]>::split_at$", m_split_at)
    A(r"^(core|std)::slice::<impl \[.*\]>::split_at_mut$", m_split_at_mut)
    A(r"^(core|std)::slice::<impl \[.*\]>::copy_from_slice$", m_copy_from_slice)
    A(r"^(core|std)::slice::<impl \[.*\]>::chunks_exact$", m_slice_chunks_exact)
    A(r"^(core|std)::slice::<impl \[.*\]>::(chunks_mut|chunks_exact_mut)$", m_slice_chunks_mut)
    for _k in ("first", "last", "split_first", "split_last"):
        A(rf"^(core|std)::slice::<impl \[.*\]>::{_k}$", m_slice_ends(_k))
    A(r"^<.* as itertools::Itertools>::chunks$", m_iter_adapt("chunks"))
    A(r"^itertools::Itertools::chunks$", m_iter_adapt("chunks"))
    A(r"^<&itertools::IntoChunks<.*> as std::iter::IntoIterator>::into_iter$", m_deref_model)
    A(r"^<itertools::(Chunks|Chunk)<.*> as std::iter::Iterator>::next$", m_iter_next)
    A(r"^<.* as std::iter::Iterator>::(any|all)::<", m_iter_anyall)
    A(r"^std::iter::Iterator::(any|all)::<", m_iter_anyall)
    A(r"^<.* as std::iter::Iterator>::position::<", m_iter_position)
    A(r"^<.* as std::iter::Iterator>::unzip::<", m_iter_unzip)
    A(r"^std::iter::Iterator::unzip::<", m_iter_unzip)
    A(r"^std::iter::Iterator::position::<", m_iter_position)
    A(r"^(core|std)::array::iter::<impl std::iter::IntoIterator for \[.*\]>::into_iter$", m_vec_into_iter)
    for k in ("map", "copied", "cloned", "enumerate", "zip", "skip", "take", "chain", "rev", "filter", "take_while", "step_by"):
        A(r"^<.* as std::iter::Iterator>::" + k + r"(::<.*>)?$", m_iter_adapt(k))
        A(r"^std::iter::Iterator::" + k + r"(::<.*>)?$", m_iter_adapt(k))
    A(r"^<.* as std::iter::Iterator>::sum::<", m_iter_sum)
    A(r"^std::iter::Iterator::sum::<", m_iter_sum)
    A(r"^<.* as std::iter::Iterator>::max$", m_iter_extremum("max"))
    A(r"^std::ops::RangeInclusive::<[iu]\w+>::contains::<[iu]\w+>$", m_range_contains(True))
    A(r"^std::ops::Range::<[iu]\w+>::contains::<[iu]\w+>$", m_range_contains(False))
    A(r"^<.* as std::iter::Iterator>::min$", m_iter_extremum("min"))
    A(r"^<.* as std::iter::Iterator>::(fold|for_each)::<", m_iter_fold)
    A(r"^std::iter::Iterator::(fold|for_each)::<", m_iter_fold)
    A(r"^(core|std)::array::from_fn::<", m_array_from_fn)
    A(r"^std::vec::Vec::<.*>::pop$", m_vec_pop)
    A(r"^<.* as std::iter::Iterator>::count$", m_iter_count)
    A(r"^std::iter::Iterator::count$", m_iter_count)
    A(r"^<.* as std::iter::Iterator>::collect::<", m_collect)
    A(r"^std::iter::Iterator::collect::<", m_collect)
    A(r"^itertools::Itertools::collect_vec$", m_collect)
    A(r"^<.* as itertools::Itertools>::collect_vec$", m_collect)
    # bit-vec
    A(r"^bit_vec::BitVec::from_bytes$", m_bitvec_from_bytes)
    A(r"^bit_vec::BitVec::new$", m_bitvec_new)
    A(r"^bit_vec::BitVec(::<.*>)?::len$", m_bitvec_len)
    A(r"^<bit_vec::BitVec(<.*>)? as std::ops::Index<usize>>::index$", m_bitvec_index)
    A(r"^bit_vec::BitVec(::<.*>)?::get$", m_bitvec_get)
    A(r"^bit_vec::BitVec(::<.*>)?::push$", m_bitvec_push)
    A(r"^bit_vec::BitVec(::<.*>)?::append$", m_bitvec_append)
    A(r"^bit_vec::BitVec(::<.*>)?::iter$", m_bitvec_iter)
    A(r"^<&bit_vec::BitVec(<.*>)? as std::iter::IntoIterator>::into_iter$", m_bitvec_iter)
    A(r"^bit_vec::<impl std::iter::IntoIterator for &bit_vec::BitVec(<.*>)?>::into_iter$", m_bitvec_iter)
    A(r"^bit_vec::BitVec(::<.*>)?::to_bytes$", m_bitvec_to_bytes)
    A(r"^<bit_vec::BitVec(<.*>)? as std::iter::FromIterator<bool>>::from_iter::<", m_bitvec_from_iter)
    # numbers
    A(r"^<u\w+ as num::Integer>::div_mod_floor$", m_div_mod_floor)
    A(r"^(core|std)::num::<impl i\w+>::unsigned_abs$", m_int_unary("unsigned_abs"))
    A(r"^(core|std)::num::<impl [iu]\w+>::ilog2$", m_int_unary("ilog2"))
    A(r"^(core|std)::num::<impl u\w+>::checked_ilog2$", m_int_unary("checked_ilog2"))
    A(r"^(core|std)::num::<impl u\w+>::overflowing_add$", m_overflowing("Add"))
    for _k in ("wrapping", "saturating", "checked"):
        for _o, _n in (("Add", "add"), ("Sub", "sub"), ("Mul", "mul")):
            A(rf"^(core|std)::num::<impl [iu]\w+>::{_k}_{_n}$", m_int_arith(_k, _o))
    A(r"^(core|std)::num::<impl i\w+>::abs$", m_int_abs)
    for _k in ("leading_zeros", "trailing_zeros", "count_ones"):
        A(rf"^(core|std)::num::<impl [iu]\w+>::{_k}$", m_int_bits(_k))
    for _i, _k in (("ctpop", "count_ones"), ("ctlz", "leading_zeros"), ("cttz", "trailing_zeros"), ("ctlz_nonzero", "leading_zeros"), ("cttz_nonzero", "trailing_zeros")):
        A(rf"^(core|std)::intrinsics::{_i}::<[iu]\w+>$", m_int_bits(_k))
    A(r"^(core|std)::num::<impl u\w+>::is_power_of_two$", m_is_power_of_two)
    A(r"^(core|std)::convert::num::<impl std::convert::From<bool> for [iu]\w+>::from$", m_from_bool)
    A(r"^<[iu]\w+ as std::convert::From<bool>>::from$", m_from_bool)
    A(r"^(core|std)::f64::<impl f64>::trunc$", m_float_unary("trunc"))
    A(r"^(core|std)::f64::<impl f64>::ceil$", m_float_unary("ceil"))
    A(r"^(core|std)::num::<impl u\w+>::overflowing_sub$", m_overflowing("Sub"))
    A(r"^(core|std)::num::<impl [ui]\w+>::to_be_bytes$", m_to_bytes_int("be"))
    A(r"^(core|std)::num::<impl [ui]\w+>::to_le_bytes$", m_to_bytes_int("le"))
    A(r"^(core|std)::num::<impl [ui]\w+>::from_be_bytes$", m_from_bytes_int("be"))
    A(r"^(core|std)::num::<impl [ui]\w+>::from_le_bytes$", m_from_bytes_int("le"))
    A(r"^(std::cmp::Ord::min|(core|std)::cmp::min)::<[ui]\w+>$", m_minmax("min"))
    A(r"^(std::cmp::Ord::max|(core|std)::cmp::max)::<[ui]\w+>$", m_minmax("max"))
    A(r"^<[ui]\w+ as std::cmp::Ord>::min$", m_minmax("min"))
    A(r"^<[ui]\w+ as std::cmp::Ord>::max$", m_minmax("max"))
    A(r"^(core|std)::f64::<impl f64>::floor$", m_float_unary("floor"))
    A(r"^(core|std)::f64::<impl f64>::round$", m_float_unary("round"))
    A(r"^(core|std)::f64::<impl f64>::sqrt$", m_float_unary("sqrt"))
    A(r"^(core|std)::f64::<impl f64>::abs$", m_float_unary("abs"))
    A(r"^(core|std)::f64::<impl f64>::max$", m_f64_minmax("max"))
    A(r"^(core|std)::f64::<impl f64>::min$", m_f64_minmax("min"))
    # entropy / hashing
    A(r"^rand::thread_rng$", m_thread_rng)
    A(r"^<rand::(prelude|rngs)::StdRng as rand::SeedableRng>::from_seed$", m_rng_from_seed)
    A(r"^<.* as rand::RngCore>::fill_bytes$", m_fill_bytes)
    A(r"^rand::RngCore::fill_bytes$", m_fill_bytes)
    A(r"^<.* as rand::Rng>::gen::<", m_rng_gen)
    A(r"^rand::Rng::gen::<", m_rng_gen)
    A(r"^<.*Shake256Core> as std::default::Default>::default$", m_shake_default)
    A(r"^<.*Shake256Core> as sha3::digest::Update>::update$", m_shake_update)
    A(r"^<.*Shake256Core> as sha3::digest::ExtendableOutput>::finalize_xof$", m_shake_finalize)
    A(r"^<.*Shake256ReaderCore> as sha3::digest::XofReader>::read$", m_xof_read)
    A(r"^std::boxed::Box::<\[.*\]>::new_uninit$", m_box_new_uninit)
    A(r"^std::boxed::Box::<.*>::new$", m_box_new)
    A(r"^<std::option::Option<.*> as std::ops::FromResidual<std::option::Option<std::convert::Infallible>>>::from_residual$", m_option_from_residual)
    A(r"^<std::option::Option<&?(bool|[iu]\d+|usize|isize)> as std::cmp::PartialEq>::(eq|ne)$", m_option_eq)
    A(r"^std::boxed::box_assume_init_into_vec_unsafe::<", m_box_into_vec)
    A(r"^(core|std)::array::<impl \[.*\]>::map::<", m_array_map)
    A(r"^<.* as (core|std)::array::SpecArrayClone>::clone::<", m_array_clone)
    A(r"^<.* as std::iter::IntoIterator>::into_iter$", m_identity)
    A(r"^<falcon_rust::falcon_field::Felt as falcon_rust::cyclotomic_fourier::CyclotomicFourier>::(fft|ifft)$", m_transform_assumed)
    return M
