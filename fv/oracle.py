"""E4 — oracles: Falcon specification constants (re-derived with mpmath on each run where they are
derived quantities) and constants parsed from the vendored PQClean C sources that the repository's
own build pulls in (pqcrypto-falcon).  Source constants only — nothing is compiled or run."""
import glob
import os
import re
import struct

from .facts import CheckerError

Q = 12289

# ---- Falcon specification v1.2 ------------------------------------------------------------------
SPEC = {
    512: {"logn": 9, "sigma": 165.7366171829776, "sigmin": 1.2778336969128337, "beta2": 34034726,
          "sig_bytelen": 666, "pk_bytes": 897, "sk_bytes": 1281, "fg_bits": 6, "FG_bits": 8},
    1024: {"logn": 10, "sigma": 168.38857144654395, "sigmin": 1.298280334344292, "beta2": 70265242,
           "sig_bytelen": 1280, "pk_bytes": 1793, "sk_bytes": 2305, "fg_bits": 5, "FG_bits": 8},
}
SIGMA_MAX = 1.8205
SALT_LEN = 40
HASH_K = 5               # floor(2^16 / q)
HASH_REJECT = 61445      # 5 q
COMPRESS_CAP = 12160     # |coefficient| < 95 * 128 (unary part at most 94)

# Table 3.1 (RCDT), 72-bit values
RCDT = [
    3024686241123004913666, 1564742784480091954050, 636254429462080897535, 199560484645026482916,
    47667343854657281903, 8595902006365044063, 1163297957344668388, 117656387352093658,
    8867391802663976, 496969357462633, 20680885154299, 638331848991, 14602316184, 247426747,
    3104126, 28824, 198, 1,
]

# FACCT polynomial coefficients (scaled by 2^63), spec Algorithm 13
FACCT_C = [
    0x00000004741183A3, 0x00000036548CFC06, 0x0000024FDCBF140A, 0x0000171D939DE045,
    0x0000D00CF58F6F84, 0x000680681CF796E3, 0x002D82D8305B0FEA, 0x011111110E066FD0,
    0x0555555555070F00, 0x155555555581FF00, 0x400000000002B400, 0x7FFFFFFFFFFF4800,
    0x8000000000000000,
]


def derived():
    """Re-derive the derived spec quantities with mpmath at 50 digits."""
    import mpmath as mp
    mp.mp.dps = 50
    out = {}
    for n, s in SPEC.items():
        # sigma = (1/pi) * sqrt(ln(4n(1+1/eps))/2) * 1.17 * sqrt(q), eps = 1/sqrt(Qs * lambda), Qs = 2^64
        lam = 128 if n == 512 else 256
        eps = 1 / mp.sqrt(mp.mpf(2) ** 64 * lam)
        sigma = (1 / mp.pi) * mp.sqrt(mp.log(4 * n * (1 + 1 / eps)) / 2) * mp.mpf("1.17") * mp.sqrt(Q)
        sigmin = sigma / (mp.mpf("1.17") * mp.sqrt(Q))
        beta2 = mp.floor((mp.mpf("1.1") * sigma) ** 2 * 2 * n)
        out[n] = {"sigma": sigma, "sigmin": sigmin, "beta2": int(beta2)}
    out["inv_2sigma_max_sq"] = 1 / (2 * mp.mpf("1.8205") ** 2)
    out["ln2"] = mp.log(2)
    out["sigma_fg"] = {n: mp.mpf("1.17") * mp.sqrt(mp.mpf(Q) / (2 * n)) for n in (512, 1024)}
    out["sigma_star"] = mp.mpf("1.17") * mp.sqrt(mp.mpf(Q) / 8192)
    return out


def f64_ulp_diff(a, b):
    """distance in units in the last place between two finite doubles"""
    ia = struct.unpack("<q", struct.pack("<d", a))[0]
    ib = struct.unpack("<q", struct.pack("<d", b))[0]
    if ia < 0:
        ia = -(ia & 0x7FFFFFFFFFFFFFFF)
    if ib < 0:
        ib = -(ib & 0x7FFFFFFFFFFFFFFF)
    return abs(ia - ib)


def bitrev(i, bits):
    r = 0
    for _ in range(bits):
        r = (r << 1) | (i & 1)
        i >>= 1
    return r


# ---- PQClean sources -----------------------------------------------------------------------------

def pqclean_dir(n):
    pats = glob.glob(os.path.expanduser(
        f"~/.cargo/registry/src/*/pqcrypto-falcon-*/pqclean/crypto_sign/falcon-{n}/clean"))
    if not pats:
        raise CheckerError("vendored PQClean sources (pqcrypto-falcon) not found in the cargo registry")
    return sorted(pats)[-1]


def _read(n, f):
    with open(os.path.join(pqclean_dir(n), f)) as fh:
        return fh.read()


def _strip_comments(s):
    s = re.sub(r"/\*.*?\*/", " ", s, flags=re.S)
    return re.sub(r"//[^\n]*", " ", s)


def _array(src, name):
    m = re.search(re.escape(name) + r"\s*\[\s*\]\s*=\s*\{(.*?)\}\s*;", src, flags=re.S)
    if not m:
        raise CheckerError(f"PQClean: array {name} not found")
    body = _strip_comments(m.group(1))
    vals = []
    for tok in body.replace("\n", " ").split(","):
        tok = tok.strip().rstrip("uUlL")
        if not tok:
            continue
        vals.append(int(tok, 0))
    return vals


def pqclean(n):
    """Constants of the reference implementation for degree n."""
    pre = f"PQCLEAN_FALCON{n}_CLEAN_"
    api = _read(n, "api.h")
    common = _strip_comments(_read(n, "common.c"))
    codec = _read(n, "codec.c")
    sign = _read(n, "sign.c")
    pq = _strip_comments(_read(n, "pqclean.c"))
    fprh = _read(n, "fpr.h")
    fprc = _read(n, "fpr.c")
    out = {}
    for key, macro in (("sk_bytes", "CRYPTO_SECRETKEYBYTES"), ("pk_bytes", "CRYPTO_PUBLICKEYBYTES"), ("sig_bytes", "CRYPTO_BYTES")):
        m = re.search(r"#define\s+" + pre + macro + r"\s+(\d+)", api)
        if not m:
            raise CheckerError(f"PQClean: {macro} not found")
        out[key] = int(m.group(1))
    out["l2bound"] = _array(common, "l2bound")
    m = re.search(r"return\s+s\s*(<=|<)\s*l2bound\s*\[\s*logn\s*\]", common)
    if not m:
        raise CheckerError("PQClean: is_short comparison not found")
    out["is_short_op"] = m.group(1)
    m = re.search(r"if\s*\(\s*w\s*<\s*(\d+)\s*\)", common)
    if not m:
        raise CheckerError("PQClean: hash_to_point threshold not found")
    out["hash_reject"] = int(m.group(1))
    out["max_fg_bits"] = _array(codec, pre + "max_fg_bits")
    out["max_FG_bits"] = _array(codec, pre + "max_FG_bits")
    dist = _array(sign, "dist")
    if len(dist) % 3:
        raise CheckerError("PQClean: dist[] not a multiple of 3")
    out["rcdt"] = [(dist[i] << 48) | (dist[i + 1] << 24) | dist[i + 2] for i in range(0, len(dist), 3)]
    out["facct_c"] = _array(fprc, "C")
    hdr = {}
    for role, var in (("sk", "sk"), ("pk", "pk"), ("sig", "sig")):
        m = re.search(var + r"\s*\[\s*0\s*\]\s*=\s*(0x[0-9A-Fa-f]+)\s*\+\s*(\d+)\s*;", pq)
        if not m:
            raise CheckerError(f"PQClean: header assignment for {role} not found")
        hdr[role] = int(m.group(1), 16) + int(m.group(2))
    out["headers"] = hdr

    def fpr(name, idx=None):
        if idx is None:
            m = re.search(r"fpr\s+" + name + r"\s*=\s*(\d+)\s*;", fprh)
            if not m:
                raise CheckerError(f"PQClean: {name} not found")
            v = int(m.group(1))
        else:
            v = _array(fprh, name)[idx]
        return struct.unpack("<d", struct.pack("<Q", v))[0]
    logn = 9 if n == 512 else 10
    out["sigma_min"] = fpr("fpr_sigma_min", logn)
    out["inv_sigma"] = fpr("fpr_inv_sigma", logn)
    out["inv_2sqrsigma0"] = fpr("fpr_inv_2sqrsigma0")
    out["inverse_of_q"] = fpr("fpr_inverse_of_q")
    out["log2"] = fpr("fpr_log2")
    out["bnorm_max"] = fpr("fpr_bnorm_max")
    return out
