"""E0 driver invocation + E1 program database.

Facts are extracted from /repo's *current working tree* (keyed by a hash over every source
file), by compiling the crate with `cargo +nightly check` under the fact extractor
(RUSTC_WORKSPACE_WRAPPER).  Nothing from /repo is executed.
"""
import fcntl
import hashlib
import json
import os
import pickle
import shutil
import struct
import subprocess
import sys
import time

VERIF = os.path.dirname(os.path.dirname(os.path.abspath(__file__)))
REPO = os.environ.get("FALCON_REPO", "/repo")
WORK = os.environ.get("FALCON_WORK", os.path.join(VERIF, ".work"))
DRIVER = os.path.join(VERIF, "e0", "target", "release", "falcon-facts")
CRATE_DIR = "falcon-rust"


class CheckerError(Exception):
    """The checker itself could not run (fail closed: exit 2, never a pass)."""


def tree_hash(repo=None):
    repo = repo or REPO
    h = hashlib.sha256()
    files = []
    for root, dirs, fs in os.walk(repo):
        dirs[:] = sorted(d for d in dirs if d not in ("target", ".git"))
        for f in sorted(fs):
            files.append(os.path.join(root, f))
    for p in files:
        rel = os.path.relpath(p, repo)
        h.update(rel.encode() + b"\0")
        try:
            with open(p, "rb") as fh:
                h.update(hashlib.sha256(fh.read()).digest())
        except OSError:
            h.update(b"?")
    # the extractor and its flags are part of the key
    try:
        with open(DRIVER, "rb") as fh:
            h.update(hashlib.sha256(fh.read()).digest())
    except OSError:
        pass
    return h.hexdigest()[:24]


def _sysroot():
    return subprocess.check_output(["rustc", "+nightly", "--print", "sysroot"], text=True).strip()


PROFILES = {
    # dev: overflow checks + debug assertions on (superset of panic sites)
    "dev": {"rustflags": "-Zmir-opt-level=0 -Zalways-encode-mir -Awarnings -Wunsafe_code", "cargo": []},
    # release-like MIR: overflow checks off
    "release": {"rustflags": "-Zmir-opt-level=0 -Zalways-encode-mir -Awarnings -Coverflow-checks=off -Cdebug-assertions=off", "cargo": []},
}


def ensure_facts(profile="dev", repo=None, quiet=False):
    """Return the path of the fact file for the current tree, extracting if necessary."""
    repo = repo or REPO
    if not os.path.exists(DRIVER):
        raise CheckerError(f"fact extractor not built: {DRIVER} (run MANIFEST.setup_cmd)")
    os.makedirs(WORK, exist_ok=True)
    key = tree_hash(repo)
    d = os.path.join(WORK, f"facts-{key}-{profile}")
    out = os.path.join(d, "facts.json")
    lock = open(os.path.join(WORK, ".lock"), "w")
    fcntl.flock(lock, fcntl.LOCK_EX)
    try:
        if os.path.exists(out):
            os.utime(d, None)
            return out
        # drop stale fact dirs (keep disk small): only the 3 most recently used trees are kept
        olds = sorted((e for e in os.listdir(WORK) if e.startswith("facts-")), key=lambda e: os.path.getmtime(os.path.join(WORK, e)), reverse=True)
        for e in olds[int(os.environ.get("FALCON_FACTS_KEEP", "3")):]:
            shutil.rmtree(os.path.join(WORK, e), ignore_errors=True)
        os.makedirs(d, exist_ok=True)
        tgt = os.path.join(d, "target")
        shutil.rmtree(tgt, ignore_errors=True)
        env = dict(os.environ)
        sysroot = _sysroot()
        env.update({
            "LD_LIBRARY_PATH": os.path.join(sysroot, "lib") + ":" + env.get("LD_LIBRARY_PATH", ""),
            "RUSTFLAGS": PROFILES[profile]["rustflags"],
            "RUSTC_WORKSPACE_WRAPPER": DRIVER,
            "FALCON_FACTS_OUT": out + ".part",
            "CARGO_TARGET_DIR": tgt,
            "CARGO_NET_OFFLINE": "true",
        })
        env.pop("RUSTC_WRAPPER", None)
        t0 = time.time()
        cmd = ["cargo", "+nightly", "check", "--offline", "-p", "falcon-rust", "--lib", "--message-format=json"]
        p = subprocess.run(cmd, cwd=repo, env=env, stdout=subprocess.PIPE, stderr=subprocess.PIPE, text=True)
        lints = []
        for line in p.stdout.splitlines():
            try:
                m = json.loads(line)
            except ValueError:
                continue
            if m.get("reason") == "compiler-message":
                msg = m.get("message", {})
                code = (msg.get("code") or {}).get("code")
                if code:
                    sp = (msg.get("spans") or [{}])[0]
                    lints.append({"code": code, "message": msg.get("message"), "file": sp.get("file_name"), "line": sp.get("line_start")})
        p.stdout = p.stderr
        # the target dir is only a by-product
        shutil.rmtree(tgt, ignore_errors=True)
        if p.returncode != 0 or not os.path.exists(out + ".part"):
            shutil.rmtree(d, ignore_errors=True)
            raise CheckerError("fact extraction failed (does /repo compile?):\n" + p.stdout[-4000:])
        with open(os.path.join(d, "lints.json"), "w") as fh:
            json.dump(lints, fh)
        os.rename(out + ".part", out)
        if not quiet:
            print(f"[facts] extracted {profile} facts for tree {key} in {time.time()-t0:.1f}s", file=sys.stderr)
        return out
    finally:
        fcntl.flock(lock, fcntl.LOCK_UN)
        lock.close()


# ------------------------------------------------------------------------------------------------
# integer type info

INT_BITS = {"I8": 8, "I16": 16, "I32": 32, "I64": 64, "I128": 128, "Isize": 64,
            "U8": 8, "U16": 16, "U32": 32, "U64": 64, "U128": 128, "Usize": 64}


class TyInfo:
    __slots__ = ("id", "s", "k", "tag", "arg", "layout", "adt", "closure")

    def __init__(self, tid, ent):
        self.id = tid
        self.s = ent["s"]
        k = ent["k"]
        self.k = k
        self.layout = ent.get("layout")
        self.adt = ent.get("adt")
        self.closure = ent.get("closure")
        self.tag = "Other"
        self.arg = None
        if isinstance(k, dict) and "RigidTy" in k:
            r = k["RigidTy"]
            if isinstance(r, str):
                self.tag = r
            else:
                self.tag, self.arg = next(iter(r.items()))

    # --- classification helpers
    def is_int(self):
        return self.tag in ("Int", "Uint")

    def is_signed(self):
        return self.tag == "Int"

    def bits(self):
        if self.tag in ("Int", "Uint"):
            return INT_BITS[self.arg]
        if self.tag == "Bool":
            return 1
        if self.tag == "Char":
            return 32
        return None

    def int_range(self):
        if self.tag == "Bool":
            return (0, 1)
        if self.tag == "Char":
            return (0, 0x10FFFF)
        b = self.bits()
        if self.tag == "Int":
            return (-(1 << (b - 1)), (1 << (b - 1)) - 1)
        return (0, (1 << b) - 1)

    def size_bytes(self):
        if self.layout is None:
            if self.tag in ("Int", "Uint"):
                return INT_BITS[self.arg] // 8
            return None
        return self.layout["size"]["num_bits"] // 8

    def __repr__(self):
        return f"Ty#{self.id}<{self.s}>"


class Instance:
    __slots__ = ("id", "name", "mangled", "kind", "vidx", "crate", "local", "has_body", "nblocks",
                 "foreign", "intrinsic", "def_name", "def_span", "args", "fn_ty", "edges", "body", "prog")

    def __init__(self, prog, d):
        self.prog = prog
        for k in ("id", "name", "mangled", "kind", "vidx", "crate", "local", "has_body", "nblocks",
                  "foreign", "intrinsic", "def_name", "def_span", "args", "fn_ty", "edges", "body"):
            setattr(self, k, d.get(k))

    def __repr__(self):
        return f"Inst#{self.id}<{self.name}>"

    def callees(self, kinds=("call", "drop", "reify", "fnptr_const", "fnitem")):
        out = []
        for e in self.edges:
            if e["k"] in kinds and "to" in e:
                out.append(e["to"])
            elif e["k"] in ("unsize", "vtable_const") and ("unsize" in kinds or "call" in kinds):
                out.extend(t for _, t in e["methods"])
                if "drop" in e:
                    out.append(e["drop"])
        return out

    def call_at(self, bb):
        for e in self.edges:
            if e["k"] == "call" and e.get("bb") == bb:
                return self.prog.inst[e["to"]]
        return None

    def span_str(self):
        return self.prog.span_str(self.def_span)


class Program:
    def __init__(self, path):
        t0 = time.time()
        pk = path + ".pickle"
        F = None
        if os.path.exists(pk) and os.path.getmtime(pk) >= os.path.getmtime(path):
            try:
                with open(pk, "rb") as fh:
                    F = pickle.load(fh)
            except Exception:
                F = None
        if F is None:
            with open(path) as fh:
                F = json.load(fh)
            try:
                with open(pk + ".tmp", "wb") as fh:
                    pickle.dump(F, fh, protocol=pickle.HIGHEST_PROTOCOL)
                os.rename(pk + ".tmp", pk)
            except Exception:
                pass
        if not F.get("complete"):
            raise CheckerError("fact file incomplete")
        self.path = path
        self.raw = F
        self.crate = F["crate"]
        if self.crate != "falcon_rust":
            raise CheckerError(f"unexpected crate {self.crate}")
        self.types = {int(k): TyInfo(int(k), v) for k, v in F["types"].items()}
        self.spans = {int(k): v for k, v in F["spans"].items()}
        self.allocs = {int(k): v for k, v in F["allocs"].items()}
        self.inst = [Instance(self, d) for d in F["instances"]]
        self.by_name = {}
        for i in self.inst:
            self.by_name.setdefault(i.name, []).append(i)
        self.roots = F["roots"]
        self.items = F["items"]
        self.statics = F["statics"]
        self.consts = F["consts"]
        try:
            with open(os.path.join(os.path.dirname(path), "lints.json")) as fh:
                self.lints = json.load(fh)
        except OSError:
            self.lints = None
        self.load_s = time.time() - t0

    # ---- lookup
    def find(self, name, unique=True):
        """Instances whose printed name equals `name` (crate prefix `falcon_rust::` optional)."""
        c = self.by_name.get(name) or self.by_name.get("falcon_rust::" + name) or []
        if unique:
            if len(c) != 1:
                raise CheckerError(f"anchor `{name}`: expected exactly one instance, found {len(c)}")
            return c[0]
        return c

    def find_re(self, pattern):
        import re
        r = re.compile(pattern)
        return [i for i in self.inst if r.search(i.name)]

    def ty(self, tid):
        return self.types[tid]

    def span_str(self, sid):
        s = self.spans.get(sid)
        if not s:
            return "?"
        return f"{s[0]}:{s[1]}"

    def span(self, sid):
        return self.spans.get(sid)

    def alloc_bytes(self, aid):
        a = self.allocs[aid]
        if a["k"] != "mem":
            return None
        hx = a["hex"]
        if "__" in hx:
            return None
        return bytes.fromhex(hx)

    # ---- call graph
    def reach(self, root_ids, kinds=("call", "drop", "reify", "fnptr_const", "unsize", "fnitem")):
        seen = {}
        stack = []
        for r in root_ids:
            if r not in seen:
                seen[r] = None
                stack.append(r)
        while stack:
            k = stack.pop()
            for t in self.inst[k].callees(kinds):
                if t not in seen:
                    seen[t] = k
                    stack.append(t)
        return seen  # id -> predecessor on one path

    def path_to(self, seen, target):
        p = []
        k = target
        while k is not None:
            p.append(self.inst[k].name)
            k = seen[k]
        return list(reversed(p))


_PROG = {}


def program(profile="dev"):
    if profile not in _PROG:
        _PROG[profile] = Program(ensure_facts(profile))
    return _PROG[profile]


# ------------------------------------------------------------------------------------------------
# constant decoding

def decode_scalar(prog, tyid, data):
    """Decode little-endian bytes of a scalar type to a python value (int/float/bool)."""
    t = prog.ty(tyid)
    if t.tag == "Bool":
        return bool(data[0])
    if t.tag in ("Int", "Uint"):
        return int.from_bytes(data, "little", signed=(t.tag == "Int"))
    if t.tag == "Char":
        return int.from_bytes(data, "little")
    if t.tag == "Float":
        if t.arg == "F64":
            return struct.unpack("<d", data)[0]
        if t.arg == "F32":
            return struct.unpack("<f", data)[0]
    return None


def const_of(prog, operand):
    """If `operand` is a Constant of scalar type return (tyid, python value) else None.
    Zero-sized constants return (tyid, ())."""
    if not isinstance(operand, dict) or "Constant" not in operand:
        return None
    c = operand["Constant"]["const_"]
    kind = c["kind"]
    if kind == "ZeroSized":
        return (c["ty"], ())
    if isinstance(kind, dict) and "Allocated" in kind:
        a = kind["Allocated"]
        if a["provenance"]["ptrs"]:
            return (c["ty"], ("ptr", a))
        bs = a["bytes"]
        if any(b is None for b in bs):
            return (c["ty"], ("undef", a))
        v = decode_scalar(prog, c["ty"], bytes(bs))
        if v is None:
            return (c["ty"], ("bytes", bytes(bs)))
        return (c["ty"], v)
    return (c["ty"], ("other", kind))


def const_ptr_target(prog, operand):
    """For a pointer constant: (alloc_id, offset, extra_meta_bytes) of what it points to, else None."""
    c = const_of(prog, operand)
    if not c or not isinstance(c[1], tuple) or not c[1] or c[1][0] != "ptr":
        return None
    a = c[1][1]
    off, aid = a["provenance"]["ptrs"][0]
    bs = a["bytes"]
    addr = int.from_bytes(bytes(b or 0 for b in bs[off:off + 8]), "little")
    meta = bytes(b or 0 for b in bs[off + 8:]) if len(bs) > off + 8 else b""
    return (aid, addr, meta)
