"""E5 — run the type-level witness crate (doctests: compile-pass `no_run`, and `compile_fail,E0xxx`)."""
import os
import re
import shutil
import subprocess

from . import facts


def run_witnesses():
    """-> dict name -> (ok, kind) ; raises CheckerError when the harness cannot run"""
    src = os.path.join(facts.VERIF, "witness")
    key = facts.tree_hash()
    work = os.path.join(facts.WORK, "witness")
    stamp = os.path.join(work, f"result-{key}.txt")
    os.makedirs(work, exist_ok=True)
    if os.path.exists(stamp):
        out = open(stamp).read()
    else:
        crate = os.path.join(work, "crate")
        shutil.rmtree(crate, ignore_errors=True)
        shutil.copytree(src, crate, ignore=shutil.ignore_patterns("target"))
        shutil.copy(os.path.join(facts.REPO, "Cargo.lock"), os.path.join(crate, "Cargo.lock"))
        env = dict(os.environ)
        env.update({"CARGO_NET_OFFLINE": "true", "CARGO_TARGET_DIR": os.path.join(work, "target")})
        env.pop("RUSTC_WORKSPACE_WRAPPER", None)
        env.pop("RUSTFLAGS", None)
        p = subprocess.run(["cargo", "+nightly", "test", "--doc", "--offline"], cwd=crate, env=env, stdout=subprocess.PIPE, stderr=subprocess.STDOUT, text=True)
        out = p.stdout
        if "running" not in out:
            raise facts.CheckerError("witness crate did not build:\n" + out[-3000:])
        for f in os.listdir(work):
            if f.startswith("result-"):
                os.remove(os.path.join(work, f))
        with open(stamp, "w") as fh:
            fh.write(out)
    res = {}
    for m in re.finditer(r"test src/lib\.rs - (\w+) \(line \d+\)(?: - (compile fail|compile))? \.\.\. (\w+)", out):
        res[m.group(1)] = (m.group(3) == "ok", m.group(2) or "run")
    return res, out
