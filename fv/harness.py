"""E6 — check harness: obligations, floors, known findings, evidence, exit codes."""
import json, re
import os
import sys
import time
import traceback

from . import facts

VERIF = facts.VERIF


class Result:
    def __init__(self, pid, tier):
        self.pid = pid
        self.tier = tier
        self.obl = []          # every decided obligation / rule instance
        self.floors = []       # (name, measured, floor)
        self.analysed = {}     # free-form: what was looked at
        self.assumptions = []
        self.trusted = []
        self.notes = []
        self.t0 = time.time()

    # status in {"discharged", "assumed", "violation"}
    def add(self, rule, site, status, detail, key=None, nontrivial=True, data=None):
        self.obl.append({"rule": rule, "site": site, "status": status, "detail": detail,
                         "key": key or f"{rule}|{site}", "nontrivial": nontrivial, "data": data})

    def ok(self, rule, site, detail, **kw):
        self.add(rule, site, "discharged", detail, **kw)

    def violation(self, rule, site, detail, **kw):
        self.add(rule, site, "violation", detail, **kw)

    def assumed(self, rule, site, detail, **kw):
        self.add(rule, site, "assumed", detail, **kw)
        self.assumptions.append(f"{rule} @ {site}: {detail}")

    def check(self, cond, rule, site, detail_ok, detail_bad=None, **kw):
        if cond:
            self.ok(rule, site, detail_ok, **kw)
        else:
            self.violation(rule, site, detail_bad or ("NOT: " + detail_ok), **kw)
        return cond

    def floor(self, name, measured, floor):
        """Fail closed when fewer instances than were confirmed by hand are seen."""
        self.floors.append((name, measured, floor))

    def assume(self, text):
        if text not in self.assumptions:
            self.assumptions.append(text)

    def trust(self, *items):
        for i in items:
            if i not in self.trusted:
                self.trusted.append(i)


def load_known():
    p = os.path.join(VERIF, "known_findings.json")
    with open(p) as fh:
        k = json.load(fh)
    return k.get("known", [])


def known_matcher(pid):
    """-> (function obligation -> key of the known finding it is, or None; {key: entry})"""
    known = [k for k in load_known() if k["property"] == pid]
    known_keys = {k["key"]: k for k in known}

    def match_known(o):
        """exact key, or — for findings that are panic sites — the site itself: function, panic kind and the failing
        index/length or operand ranges (so that rewriting the surrounding expression does not hide or duplicate the finding)"""
        if o["key"] in known_keys:
            return o["key"]
        d = o.get("data") or {}
        for k in known:
            m = k.get("match")
            if m and o["rule"] == m.get("rule") and d.get("fn") == m.get("fn") and d.get("kind") == m.get("kind") and re.search(m.get("detail_re", "$^"), d.get("detail") or ""):
                return k["key"]
        return None
    return match_known, known_keys


def finish(res, level, technique_note, explanation):
    """Print verdict lines, write evidence + replay files, return exit code."""
    pid = res.pid
    match_known, known_keys = known_matcher(pid)
    viol = [o for o in res.obl if o["status"] == "violation"]
    real = []
    seen_known = set()
    for o in viol:
        mk = match_known(o)
        if mk is not None:
            seen_known.add(mk)
        else:
            real.append(o)
    # floors
    floor_fail = [(n, m, f) for (n, m, f) in res.floors if m < f]
    OUT = os.environ.get("FALCON_OUT_DIR", VERIF)      # only tools/matrix.py redirects this (scratch runs on patched copies)
    os.makedirs(os.path.join(OUT, "evidence"), exist_ok=True)
    os.makedirs(os.path.join(OUT, "replay"), exist_ok=True)
    code = 0
    for k in sorted(seen_known):
        print(f"KNOWN-FINDING: property={pid} {known_keys[k]['what']} [key {k}]")
    for i, o in enumerate(real):
        rp = os.path.join(OUT, "replay", f"{pid}-{i}.json")
        with open(rp, "w") as fh:
            json.dump({"property": pid, "rule": o["rule"], "site": o["site"], "detail": o["detail"],
                       "key": o["key"], "data": o["data"],
                       "rerun": f"./check {pid} --tier {res.tier}"}, fh, indent=1, default=str)
        print(f"VIOLATION property={pid} replay={rp}")
        print(f"  rule {o['rule']} at {o['site']}: {o['detail']}")
        code = 1
    for (n, m, f) in floor_fail:
        print(f"CHECKER-ERROR property={pid}: floor `{n}`: measured {m} < confirmed {f} (anchor moved or extractor incomplete) — failing closed")
        code = code or 2
    n_obl = len(res.obl)
    n_dis = sum(1 for o in res.obl if o["status"] == "discharged")
    n_ass = sum(1 for o in res.obl if o["status"] == "assumed")
    distinct = len({o["key"] for o in res.obl if o["nontrivial"]})
    samples = []
    for o in res.obl[:400]:
        if o["nontrivial"] and len(samples) < 12:
            samples.append({"rule": o["rule"], "site": o["site"], "status": o["status"], "detail": o["detail"][:300]})
    cov = {
        "evaluations": n_obl,
        "distinct_nontrivial": distinct,
        "rule": "one evaluation = one rule instance (function, rule, site) decided on the MIR / CTFE constants of /repo's current tree; "
                "non-trivial = needed a value, range, dependence or reachability computation (not a mere existence check); distinct by key",
        "samples": samples,
        "obligations": n_obl,
        "discharged": n_dis,
        "assumed": n_ass,
        "known_findings": sorted(seen_known),
        "checker_cmd": f"./check {pid} --tier {res.tier}",
        "trusted_base": res.trusted,
        "explanation": explanation,
        "technique": technique_note,
        "analysed": res.analysed,
        "floors": [{"name": n, "measured": m, "floor": f} for (n, m, f) in res.floors],
        "notes": res.notes,
    }
    if level == "proof" and (n_dis != n_obl or n_obl == 0):
        level = "other"
    ev = {
        "property_id": pid, "tier": res.tier, "seed": int(os.environ.get("VERIF_SEED", "0") or 0),
        "level": level, "coverage": cov, "assumptions": res.assumptions,
        "wall_s": round(time.time() - res.t0, 2), "violations": len(real),
    }
    with open(os.path.join(OUT, "evidence", f"{pid}.json"), "w") as fh:
        json.dump(ev, fh, indent=1, default=str)
    if code == 0:
        print(f"OK property={pid} tier={res.tier}: {n_dis} discharged, {n_ass} assumed, {len(seen_known)} known finding(s), "
              f"{n_obl} rule instances in {ev['wall_s']}s")
    return code


def main(argv):
    import argparse
    import importlib
    ap = argparse.ArgumentParser()
    ap.add_argument("pid")
    ap.add_argument("--tier", default=os.environ.get("VERIF_TIER", "quick"), choices=["quick", "thorough"])
    ap.add_argument("--replay", default=None)
    a = ap.parse_args(argv)
    pid = a.pid.upper()
    if a.replay:
        with open(a.replay) as fh:
            print(json.dumps(json.load(fh), indent=1))
        print("re-running the check on the current tree:")
    sys.path.insert(0, VERIF)
    try:
        mod = importlib.import_module(f"rules.{pid.lower()}")
        res = Result(pid, a.tier)
        mod.run(res)
        code = finish(res, mod.LEVEL, mod.TECHNIQUE, mod.EXPLANATION)
    except facts.CheckerError as e:
        print(f"CHECKER-ERROR property={pid}: {e}")
        code = 2
    except Exception:
        traceback.print_exc()
        print(f"CHECKER-ERROR property={pid}: internal error (failing closed)")
        code = 2
    return code
