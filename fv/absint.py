"""E2 — abstract interpreter over monomorphic MIR (intervals + symbolic difference bounds + scale
relations + provenance of booleans), specialised to what falcon-rust does.

Sound-by-construction intent, trusted in practice: this is the checker's own code, and its models of
std / bit-vec / itertools / num / rand / sha3 (models.py) are part of the trusted base.
"""
import math
import struct
import sys

from .facts import CheckerError, const_of
from .mir import Body, kind_of

sys.setrecursionlimit(20000)

INF = float("inf")
USIZE_MAX = (1 << 64) - 1
ISIZE_MAX = (1 << 63) - 1


RQ = 12289


class modulus:
    """residue-class polynomials are taken modulo RQ (Falcon's q by default); `with modulus(p):` switches the
    modulus for the analyses of the 30-bit prime field"""

    def __init__(self, m):
        self.m = m

    def __enter__(self):
        global RQ
        self.old = RQ
        RQ = self.m

    def __exit__(self, *a):
        global RQ
        RQ = self.old


def p_const(c):
    c %= RQ
    return {(): c} if c else {}


def p_sym(name):
    return {((name, 1),): 1}


def p_add(a, b, sign=1):
    out = dict(a)
    for m, c in b.items():
        v = (out.get(m, 0) + sign * c) % RQ
        if v:
            out[m] = v
        else:
            out.pop(m, None)
    return out


def p_mul(a, b):
    out = {}
    for m1, c1 in a.items():
        for m2, c2 in b.items():
            d = dict(m1)
            for s_, e in m2:
                d[s_] = d.get(s_, 0) + e
            m = tuple(sorted(d.items()))
            v = (out.get(m, 0) + c1 * c2) % RQ
            if v:
                out[m] = v
            else:
                out.pop(m, None)
    return out


def p_subst(p, env):
    """substitute constants for some symbols"""
    out = {}
    for m, c in p.items():
        rest = []
        for s_, e in m:
            if s_ in env:
                c = c * pow(env[s_], e, RQ) % RQ
            else:
                rest.append((s_, e))
        if c:
            k = tuple(rest)
            v = (out.get(k, 0) + c) % RQ
            if v:
                out[k] = v
            else:
                out.pop(k, None)
    return out


class Unsupported(Exception):
    pass


class Diverge(Exception):
    """abstract execution has no continuation on this path (bottom)"""


class PathAbort(Exception):
    """path mode met an indeterminate branch"""


# ------------------------------------------------------------------------------------------ values
class I:
    __slots__ = ("vid", "ty")

    def __init__(self, vid, ty):
        self.vid = vid
        self.ty = ty

    def __repr__(self):
        return f"I({self.vid})"


class Fl:
    __slots__ = ("lo", "hi", "nan", "tag")

    def __init__(self, lo, hi, nan=False, tag=None):
        self.lo, self.hi, self.nan, self.tag = lo, hi, nan, tag

    def __repr__(self):
        return f"Fl[{self.lo},{self.hi}{',nan' if self.nan else ''}]"


class Ag:
    __slots__ = ("f",)

    def __init__(self, f):
        self.f = tuple(f)

    def __repr__(self):
        return f"Ag{self.f}"


class En:
    __slots__ = ("vs",)

    def __init__(self, vs):
        self.vs = vs  # dict variant_idx -> tuple(values)

    def __repr__(self):
        return f"En{self.vs}"


class Sq:
    """sequence (Vec / slice / array), smashed: one element abstraction + length (+ distinguished
    head elements at constant indices, + constant data for CTFE tables)"""
    __slots__ = ("elem", "len", "head", "data")

    def __init__(self, elem, ln, head=None, data=None):
        self.elem, self.len, self.head, self.data = elem, ln, head, data

    def __repr__(self):
        return f"Sq(len={self.len}, elem={self.elem}, head={self.head})"


class Pt:
    __slots__ = ("key", "proj", "mut")

    def __init__(self, key, proj=(), mut=False):
        self.key, self.proj, self.mut = key, tuple(proj), mut

    def __repr__(self):
        return f"Pt({self.key},{self.proj})"


class Top:
    __slots__ = ("ty",)

    def __init__(self, ty):
        self.ty = ty

    def __repr__(self):
        return f"Top({self.ty})"


class Md:
    """value of a modelled library type (BitVec, iterators, rng, hasher, ...)"""
    __slots__ = ("kind", "d")

    def __init__(self, kind, d=None):
        self.kind, self.d = kind, dict(d or {})

    def __repr__(self):
        return f"Md({self.kind},{self.d})"


class Bot:
    """element abstraction of a sequence that is certainly empty"""
    __slots__ = ()

    def __repr__(self):
        return "Bot"


BOT = Bot()
UNIT = Ag(())


# ------------------------------------------------------------------------------------------- state
EMPTY = frozenset()


class Taint(dict):
    """vid -> frozenset of labels (possibly empty): values that derive from input data / named sources"""

    def add(self, v, labs=EMPTY):
        if labs is True or labs is None:
            labs = EMPTY
        self[v] = self.get(v, EMPTY) | labs

    def discard(self, v):
        self.pop(v, None)

    def copy(self):
        return Taint(self)

    def __iand__(self, live):
        for k in [k for k in self if k not in live]:
            del self[k]
        return self

    def labels(self, v):
        return self.get(v, EMPTY)


def tl(st, *vids):
    """combined taint of several vids: None if none is tainted, else the union of their labels"""
    out = None
    for v in vids:
        if v in st.taint:
            out = st.taint[v] if out is None else (out | st.taint[v])
    return out


class Facts:
    """difference bounds  a - b <= c, indexed by both ends (dict-like on (a, b) keys)"""
    __slots__ = ("d", "fo", "fi")

    def __init__(self, d=None):
        self.d = {}
        self.fo = {}
        self.fi = {}
        if d:
            for k, c in d.items():
                self[k] = c

    def copy(self):
        f = Facts.__new__(Facts)
        f.d = dict(self.d)
        f.fo = {k: set(v) for k, v in self.fo.items()}
        f.fi = {k: set(v) for k, v in self.fi.items()}
        return f

    def get(self, k, default=None):
        return self.d.get(k, default)

    def __getitem__(self, k):
        return self.d[k]

    def __setitem__(self, k, c):
        if k not in self.d:
            self.fo.setdefault(k[0], set()).add(k[1])
            self.fi.setdefault(k[1], set()).add(k[0])
        self.d[k] = c

    def __contains__(self, k):
        return k in self.d

    def __len__(self):
        return len(self.d)

    def __bool__(self):
        return bool(self.d)

    def __iter__(self):
        return iter(self.d)

    def __eq__(self, o):
        return isinstance(o, Facts) and self.d == o.d

    def items(self):
        return self.d.items()

    def keys(self):
        return self.d.keys()

    def pop(self, k, default=None):
        if k in self.d:
            self.fo[k[0]].discard(k[1])
            self.fi[k[1]].discard(k[0])
            return self.d.pop(k)
        return default

    def __delitem__(self, k):
        self.pop(k)

    def out(self, a):
        """[(b, c)] with a - b <= c"""
        d = self.d
        return [(b, d[(a, b)]) for b in self.fo.get(a, ())]

    def inc(self, b):
        """[(a, c)] with a - b <= c"""
        d = self.d
        return [(a, d[(a, b)]) for a in self.fi.get(b, ())]

    def touching(self, v):
        return [(v, b) for b in self.fo.get(v, ())] + [(a, v) for a in self.fi.get(v, ())]


class St:
    __slots__ = ("store", "itv", "facts", "prov", "scale", "taint", "part", "res")

    def __init__(self):
        self.part = ()
        self.res = {}
        self.store = {}
        self.itv = {}
        self.facts = Facts()
        self.prov = {}
        self.scale = {}
        self.taint = Taint()

    def copy(self):
        s = St()
        s.store = dict(self.store)
        s.itv = dict(self.itv)
        s.facts = self.facts.copy()
        s.prov = dict(self.prov)
        s.scale = dict(self.scale)
        s.taint = self.taint.copy()
        s.part = self.part
        s.res = dict(self.res)
        return s

    # ---- intervals
    def rng(self, v):
        return self.itv[v.vid]

    def lo(self, v):
        return self.itv[v.vid][0]

    def hi(self, v):
        return self.itv[v.vid][1]

    def const(self, v):
        lo, hi = self.itv[v.vid]
        return lo if lo == hi else None

    # ---- relational
    def add_fact(self, a, b, c):
        """a - b <= c"""
        if a == b:
            return
        ia, ib = self.itv.get(a), self.itv.get(b)
        if ia is not None and ib is not None and ia[1] - ib[0] <= c:
            return      # implied by the intervals
        k = (a, b)
        o = self.facts.get(k)
        if o is None or c < o:
            self.facts[k] = c

    def bound(self, a, b):
        """best known upper bound of a - b (vids), or None"""
        if a == b:
            return 0
        best = None
        la, ha = self.itv[a]
        lb, hb = self.itv[b]
        if ha != INF and lb != -INF:
            best = ha - lb
        f = self.facts.get((a, b))
        if f is not None and (best is None or f < best):
            best = f
        # one step of transitivity through a third symbol
        facts = self.facts
        for y, c in facts.out(a):
            if y != b:
                f2 = facts.d.get((y, b))
                if f2 is not None and (best is None or c + f2 < best):
                    best = c + f2
                hy = self.itv[y][1]
                if hy != INF and lb != -INF and (best is None or c + hy - lb < best):
                    best = c + hy - lb          # a - y <= c  and  y - b <= hi(y) - lo(b)
        if ha != INF:
            for y, c in facts.inc(b):
                if y != a:
                    ly = self.itv[y][0]
                    if ly != -INF and (best is None or ha - ly + c < best):
                        best = ha - ly + c      # a - y <= hi(a) - lo(y)  and  y - b <= c
        return best

    def forget(self, vid):
        self.itv.pop(vid, None)
        self.prov.pop(vid, None)
        self.scale.pop(vid, None)
        self.taint.discard(vid)
        self.res.pop(vid, None)
        for k in self.facts.touching(vid):
            self.facts.pop(k)


def same_state(a, b):
    return a.itv == b.itv and a.facts == b.facts and a.scale == b.scale and a.taint == b.taint and _same_store(a.store, b.store)


def _same_store(a, b):
    if a.keys() != b.keys():
        return False
    for k, v in a.items():
        if not _same_val(v, b[k]):
            return False
    return True


def _same_val(a, b):
    if a is b:
        return True
    ta = type(a)
    if ta is not type(b):
        return False
    if ta is I:
        return a.vid == b.vid and a.ty == b.ty
    if ta is Fl:
        return a.lo == b.lo and a.hi == b.hi and a.nan == b.nan
    if ta is Ag:
        return len(a.f) == len(b.f) and all(_same_val(x, y) for x, y in zip(a.f, b.f))
    if ta is En:
        return a.vs.keys() == b.vs.keys() and all(len(a.vs[k]) == len(b.vs[k]) and all(_same_val(x, y) for x, y in zip(a.vs[k], b.vs[k])) for k in a.vs)
    if ta is Sq:
        if not (_same_val(a.elem, b.elem) and _same_val(a.len, b.len) and a.data == b.data):
            return False
        ha, hb = a.head or {}, b.head or {}
        return ha.keys() == hb.keys() and all(_same_val(ha[k], hb[k]) for k in ha)
    if ta is Pt:
        return a.key == b.key and len(a.proj) == len(b.proj) and all(_same_proj(x, y) for x, y in zip(a.proj, b.proj))
    if ta is Top:
        return a.ty == b.ty
    if ta is Md:
        return a.kind == b.kind and a.d.keys() == b.d.keys() and all(_same_any(a.d[k], b.d[k]) for k in a.d)
    return a == b


def _same_any(a, b):
    if isinstance(a, (I, Fl, Ag, En, Sq, Pt, Top, Md)):
        return _same_val(a, b)
    return a == b


def _same_proj(x, y):
    if x[0] != y[0]:
        return False
    if x[0] == "i":
        return _same_val(x[1], y[1])
    return x == y


# ---------------------------------------------------------------------------------------- context
class Obl:
    __slots__ = ("kind", "fn", "bb", "ok", "detail", "role", "span", "ctxpath", "assumed", "quiet")

    def __init__(self, kind, fn, bb, ok, detail, role, span, ctxpath, assumed=None, quiet=False):
        self.kind, self.fn, self.bb, self.ok, self.detail, self.role, self.span, self.ctxpath, self.assumed = kind, fn, bb, ok, detail, role, span, ctxpath, assumed
        self.quiet = quiet

    def key(self):
        return f"{self.fn}|{self.kind}|{self.role}"


class Ctx:
    """one analysis session over a Program"""

    def __init__(self, prog, max_depth=12, path_budget=400000, widen_after=3, log=None):
        self.prog = prog
        self.bodies = {}
        self.counter = 0
        self.obl = []
        self.frames = {}       # interned frame ids
        self.stack = []        # instance ids being analysed
        self.max_depth = max_depth
        self.path_budget = path_budget
        self.widen_after = widen_after
        self.unmodelled = {}   # name -> count
        self.models_used = {}
        self.analysed_fns = {}
        self.hooks = {}        # rule hooks: name -> callable
        self.memo = {}
        self.steps = 0
        self.log = log
        self.heap_n = 0
        self.pins = []
        self.quiet = 0
        self.step_limit = 0
        self.max_parts = 4
        self.max_parts_branch = 8
        self.observers = []    # callables (event, **kw)
        self.path_mode_fns = None   # optional predicate(inst) -> bool: try path mode
        self.no_inline = None       # optional predicate(inst) -> bool: never analyse body (havoc)
        self.partition_fns = None   # predicate(inst) -> bool: trace partitioning on boolean branches (merged at loop heads)
        self.summary_fns = None     # predicate(inst) -> bool: memoise on pointer-to-sequence arguments too
        self.assume_fns = None      # predicate(inst)-> str|None: obligations inside are 'assumed' with that reason
        from . import models
        self.models = models.build(self)

    def body(self, inst):
        b = self.bodies.get(inst.id)
        if b is None:
            b = Body(inst)
            self.bodies[inst.id] = b
        return b

    def fresh(self):
        self.counter += 1
        return self.counter

    def frame_id(self, parent, site, inst_id):
        k = (parent, site, inst_id)
        f = self.frames.get(k)
        if f is None:
            f = len(self.frames) + 1
            self.frames[k] = f
        return f

    def heap_key(self, tag):
        return ("h", tag)

    def emit(self, event, **kw):
        for o in self.observers:
            o(event, **kw)

    # ---------------------------------------------------------------- value constructors
    def mk_int(self, st, lo, hi, ty, vid=None, taint=False):
        if vid is None:
            vid = self.fresh()
        elif vid in st.itv:
            rename_vid(st, vid, self.fresh())
        st.itv[vid] = (lo, hi)
        if taint is not None and taint is not False:
            st.taint.add(vid, taint)
        return I(vid, ty)

    def int_range(self, ty):
        return self.prog.ty(ty).int_range()

    def top_int(self, st, ty, vid=None, taint=False):
        lo, hi = self.int_range(ty)
        return self.mk_int(st, lo, hi, ty, vid, taint)

    def const_int(self, st, v, ty):
        return self.mk_int(st, v, v, ty)

    def bool_ty(self):
        t = getattr(self, "_bool_ty", None)
        if t is None:
            for tid, ti in self.prog.types.items():
                if ti.tag == "Bool":
                    t = tid
                    break
            self._bool_ty = t
        return t

    def ty_by_str(self, s):
        c = getattr(self, "_ty_by_str", None)
        if c is None:
            c = {}
            for tid, ti in self.prog.types.items():
                c.setdefault(ti.s, tid)
            self._ty_by_str = c
        if s not in c:
            raise CheckerError(f"type `{s}` not present in fact file")
        return c[s]

    def top_value(self, st, ty, depth=0, taint=False):
        """unknown value of type `ty`, structured as far as the type says"""
        t = self.prog.ty(ty)
        tag = t.tag
        if tag in ("Int", "Uint", "Bool", "Char"):
            return self.top_int(st, ty, taint=taint)
        if tag == "Float":
            return Fl(-INF, INF, True)
        if tag == "Tuple":
            if depth > 6:
                return Top(ty)
            return Ag(self.top_value(st, x, depth + 1, taint) for x in t.arg)
        if tag in ("Ref", "RawPtr"):
            return Pt(None)
        if tag == "Never":
            return UNIT
        if tag in ("FnDef", "Closure") and (t.layout and t.layout["size"]["num_bits"] == 0):
            return UNIT
        if tag == "Array":
            n = array_len(t)
            et = t.arg[0]
            return Sq(self.top_value(st, et, depth + 1, taint), self.const_int(st, n, self.usize_ty()))
        if tag == "Slice" or tag == "Str":
            et = t.arg if tag == "Slice" else self.ty_by_str("u8")
            return Sq(self.top_value(st, et, depth + 1, taint), self.mk_int(st, 0, ISIZE_MAX, self.usize_ty()))
        if tag == "Adt":
            m = self.models.type_model(t)
            if m is not None:
                return m(self, st, t, taint)
            if depth > 5 or t.adt is None:
                return Top(ty)
            a = t.adt
            if a["kind"] == "enum":
                vs = {}
                for i, v in enumerate(a["variants"]):
                    vs[i] = tuple(self.top_value(st, f["ty"], depth + 1, taint) for f in v["fields"])
                return En(vs)
            if a["kind"] == "struct":
                return Ag(self.top_value(st, f["ty"], depth + 1, taint) for f in a["variants"][0]["fields"])
        return Top(ty)

    def usize_ty(self):
        return self.ty_by_str("usize")

    # ---------------------------------------------------------------- obligations
    def obligation(self, kind, frame, bb, ok, detail, role):
        inst = frame.inst
        reason = self.assume_fns(inst) if self.assume_fns else None
        o = Obl(kind, inst.name, bb, bool(ok), detail, role, frame.body.span_of(bb), [self.prog.inst[i].name for i in self.stack[-4:]],
                assumed=(reason if not ok else None), quiet=self.quiet > 0)
        self.obl.append(o)
        return o


class pinned:
    """keep the vids of model-local temporaries alive across nested analyses (state gc)"""

    def __init__(self, ctx, *vals):
        self.ctx, self.vals = ctx, [v for v in vals if v is not None]

    def __enter__(self):
        self.ctx.pins.extend(self.vals)

    def __exit__(self, *a):
        del self.ctx.pins[len(self.ctx.pins) - len(self.vals):]


class Frame:
    __slots__ = ("id", "inst", "body", "parent", "depth")

    def __init__(self, fid, inst, body, parent, depth):
        self.id, self.inst, self.body, self.parent, self.depth = fid, inst, body, parent, depth


def array_len(t):
    c = t.arg[1]
    k = c["kind"]
    if isinstance(k, dict) and "Value" in k:
        return int.from_bytes(bytes(b or 0 for b in k["Value"][1]["bytes"]), "little")
    raise Unsupported("array length not a value")


# ---------------------------------------------------------------------------- vid renaming / walking
def map_value(v, f):
    """rebuild value with every I mapped through f(I)->I"""
    t = type(v)
    if t is I:
        return f(v)
    if t is Ag:
        nf = tuple(map_value(x, f) for x in v.f)
        return v if all(a is b for a, b in zip(nf, v.f)) else Ag(nf)
    if t is En:
        return En({k: tuple(map_value(x, f) for x in p) for k, p in v.vs.items()})
    if t is Sq:
        return Sq(map_value(v.elem, f), map_value(v.len, f), None if v.head is None else {k: map_value(x, f) for k, x in v.head.items()}, v.data)
    if t is Pt:
        if any(p[0] == "i" for p in v.proj):
            return Pt(v.key, tuple(("i", map_value(p[1], f)) if p[0] == "i" else p for p in v.proj), v.mut)
        return v
    if t is Md:
        return Md(v.kind, {k: (map_value(x, f) if isinstance(x, (I, Ag, En, Sq, Pt, Md)) else x) for k, x in v.d.items()})
    return v


def iter_ints(v, path=()):
    t = type(v)
    if t is I:
        yield path, v
    elif t is Ag:
        for i, x in enumerate(v.f):
            yield from iter_ints(x, path + (i,))
    elif t is En:
        for k in sorted(v.vs):
            for i, x in enumerate(v.vs[k]):
                yield from iter_ints(x, path + ("v", k, i))
    elif t is Sq:
        yield from iter_ints(v.len, path + ("len",))
        yield from iter_ints(v.elem, path + ("elem",))
        if v.head:
            for k in sorted(v.head):
                yield from iter_ints(v.head[k], path + ("head", k))
    elif t is Pt:
        for n, p in enumerate(v.proj):
            if p[0] == "i":
                yield from iter_ints(p[1], path + ("pi", n))
    elif t is Md:
        for k in sorted(v.d):
            x = v.d[k]
            if isinstance(x, (I, Ag, En, Sq, Pt, Md)):
                yield from iter_ints(x, path + ("m", k))


def rename_vid(st, old, new):
    """old vid is about to be redefined: everything that still refers to the old value gets `new`"""
    def f(i):
        return I(new, i.ty) if i.vid == old else i
    for k, v in list(st.store.items()):
        nv = map_value(v, f)
        if nv is not v:
            st.store[k] = nv
    if old in st.itv:
        st.itv[new] = st.itv.pop(old)
    if old in st.prov:
        st.prov[new] = st.prov.pop(old)
    if old in st.scale:
        st.scale[new] = st.scale.pop(old)
    if old in st.taint:
        st.taint.add(new, st.taint.pop(old))
    if old in st.res:
        st.res[new] = st.res.pop(old)
    for k in st.facts.touching(old):
        c = st.facts.pop(k)
        if c is not None:
            st.facts[(new if k[0] == old else k[0], new if k[1] == old else k[1])] = c
    for k, p in list(st.prov.items()):
        if old in p[1]:
            st.prov[k] = (p[0], tuple(new if x == old else x for x in p[1]), p[2])
    for k, (m, b) in list(st.scale.items()):
        if b == old:
            st.scale[k] = (m, new)


def rename_bulk(st, m):
    """rename vids according to dict m (old -> new) everywhere in the state"""
    if not m:
        return
    def f(i):
        n = m.get(i.vid)
        return I(n, i.ty) if n is not None else i
    for k, v in list(st.store.items()):
        nv = map_value(v, f)
        if nv is not v:
            st.store[k] = nv
    g = lambda x: m.get(x, x)
    st.itv = {g(k): v for k, v in st.itv.items()}
    st.facts = Facts({(g(a), g(b)): c for (a, b), c in st.facts.items()})
    st.prov = {g(k): (p[0], tuple(g(x) for x in p[1]), p[2]) for k, p in st.prov.items()}
    st.scale = {g(k): (mm, g(b)) for k, (mm, b) in st.scale.items()}
    st.taint = Taint({g(k): v for k, v in st.taint.items()})
    st.res = {g(k): v for k, v in st.res.items()}


def gc_state(st, pins=()):
    """drop intervals/facts of vids no longer referenced from the store (or via prov/scale of live ones)"""
    live = set()
    for v in st.store.values():
        for _, i in iter_ints(v):
            live.add(i.vid)
    for v in pins:
        for _, i in iter_ints(v):
            if i.vid in st.itv:
                live.add(i.vid)
    # vids referenced through provenance / scale relations of live values stay alive, up to a small depth
    # (deeper history is not needed for refinement and would grow without bound in unrolled loops)
    frontier = list(live)
    for _depth in range(3):
        nxt = []
        for k in frontier:
            p = st.prov.get(k)
            if p:
                for x in p[1]:
                    if x not in live and x in st.itv:
                        live.add(x)
                        nxt.append(x)
            sc = st.scale.get(k)
            if sc and sc[1] not in live and sc[1] in st.itv:
                live.add(sc[1])
                nxt.append(sc[1])
        frontier = nxt
        if not frontier:
            break
    for k in frontier:
        # cut: provenance of the deepest kept values is dropped
        st.prov.pop(k, None)
    st.itv = {k: v for k, v in st.itv.items() if k in live}
    if any(k[0] not in live or k[1] not in live for k in st.facts.d):
        st.facts = Facts({k: c for k, c in st.facts.items() if k[0] in live and k[1] in live})
    st.prov = {k: p for k, p in st.prov.items() if k in live and all(x in live for x in p[1])}
    st.scale = {k: s for k, s in st.scale.items() if k in live and s[1] in live}
    st.taint &= live
    if st.res:
        st.res = {k: v for k, v in st.res.items() if k in live}


# ------------------------------------------------------------------------------------------- join
def join_states(ctx, a, b, tag, widen=False, thresholds=()):
    rel_thresholds = sorted(set(t for t in thresholds if abs(t) <= 4096) | set(-t for t in thresholds if abs(t) <= 4096))
    """join of two states at program point `tag`; vids that differ get deterministic names"""
    jf = getattr(ctx, "joined_fids", None)
    if jf is None:
        jf = ctx.joined_fids = set()
    jf.add(tag[1] if tag[0] == "ret" else tag[0])
    out = St()
    out.part = a.part
    pair = {}      # (va, vb) -> target vid
    ma, mb = {}, {}
    anchors = set()

    pending = {}
    changed_scalar = [False]

    def fin(t, old, hull, ty, path):
        lo, hi = hull
        if widen:
            is_elem = any(isinstance(p, str) and p in ("elem", "elemh", "head") for p in path)
            if is_elem:
                pending[t] = (old, hull, ty)
            else:
                if hull != old:
                    changed_scalar[0] = True
                lo, hi = widen_itv(old, hull, thresholds, ctx.int_range(ty))
        out.itv[t] = (lo, hi)

    def jint(x, y, path):
        if x.vid == y.vid:
            t = x.vid
            key = (t, t)
            if key not in pair:
                pair[key] = t
                la, ha = a.itv[t]
                lb, hb = b.itv[t]
                fin(t, (la, ha), (min(la, lb), max(ha, hb)), x.ty, path)
                ma[t] = t
                mb[t] = t
                tt = tl(a, t)
                tb_ = tl(b, t)
                if tt is not None or tb_ is not None:
                    out.taint.add(t, (tt or EMPTY) | (tb_ or EMPTY))
            return I(t, x.ty)
        key = (x.vid, y.vid)
        t = pair.get(key)
        if t is None:
            t = ("j", tag, path)
            if t in pair.values():
                t = ("j", tag, path, len(pair))
            pair[key] = t
            la, ha = a.itv[x.vid]
            lb, hb = b.itv[y.vid]
            fin(t, (la, ha), (min(la, lb), max(ha, hb)), x.ty, path)
            ma.setdefault(x.vid, t)
            mb.setdefault(y.vid, t)
            tt = tl(a, x.vid)
            tb_ = tl(b, y.vid)
            if tt is not None or tb_ is not None:
                out.taint.add(t, (tt or EMPTY) | (tb_ or EMPTY))
        return I(t, x.ty)

    def jv(x, y, path):
        if x is BOT and y is BOT:
            return BOT
        if x is y and type(x) is not I:
            # still need intervals of inner ints
            return map_value(x, lambda i: jint(i, i, path))
        tx, ty_ = type(x), type(y)
        if tx is I and ty_ is I:
            return jint(x, y, path)
        if tx is Bot:
            return map_value(y, lambda i: carry(i, b))
        if ty_ is Bot:
            return map_value(x, lambda i: carry(i, a))
        if tx is Top:
            return x
        if ty_ is Top:
            return y
        if tx is not ty_:
            raise Unsupported(f"join of different shapes {x} / {y}")
        if tx is Fl:
            return Fl(min(x.lo, y.lo), max(x.hi, y.hi), x.nan or y.nan, x.tag if x.tag == y.tag else None) if not widen else Fl(x.lo if y.lo >= x.lo else -INF, x.hi if y.hi <= x.hi else INF, x.nan or y.nan)
        if tx is Ag:
            if len(x.f) != len(y.f):
                raise Unsupported("join Ag arity")
            return Ag(jv(p, q, path + (i,)) for i, (p, q) in enumerate(zip(x.f, y.f)))
        if tx is En:
            vs = {}
            for k in set(x.vs) | set(y.vs):
                if k in x.vs and k in y.vs:
                    vs[k] = tuple(jv(p, q, path + ("v", k, i)) for i, (p, q) in enumerate(zip(x.vs[k], y.vs[k])))
                elif k in x.vs:
                    vs[k] = tuple(map_value(p, lambda i: carry(i, a)) for p in x.vs[k])
                else:
                    vs[k] = tuple(map_value(p, lambda i: carry(i, b)) for p in y.vs[k])
            return En(vs)
        if tx is Sq:
            head = None
            if x.head and y.head:
                head = {k: jv(x.head[k], y.head[k], path + ("head", k)) for k in x.head if k in y.head}
            elem = jv(x.elem, y.elem, path + ("elem",))
            # heads dropped on one side flow into elem
            for src, hs, other in ((a, x.head, y.head), (b, y.head, x.head)):
                if hs:
                    for k, hv in hs.items():
                        if not other or k not in other:
                            elem = jv_loose(elem, hv, src, path + ("elemh", k))
            ln = jv(x.len, y.len, path + ("len",))
            anchors.add(ln.vid)
            return Sq(elem, ln, head or None, x.data if x.data == y.data else None)
        if tx is Pt:
            if x.key == y.key and len(x.proj) == len(y.proj):
                try:
                    pr = []
                    for n, (p, q) in enumerate(zip(x.proj, y.proj)):
                        if p[0] != q[0]:
                            return Pt(None)
                        if p[0] == "i":
                            pr.append(("i", jv(p[1], q[1], path + ("pi", n))))
                        elif p == q:
                            pr.append(p)
                        else:
                            return Pt(None)
                    return Pt(x.key, pr, x.mut or y.mut)
                except Unsupported:
                    return Pt(None)
            return Pt(None)
        if tx is Md:
            if x.kind != y.kind or x.d.keys() != y.d.keys():
                raise Unsupported(f"join Md {x.kind}/{y.kind}")
            d = {}
            for k in x.d:
                p, q = x.d[k], y.d[k]
                if isinstance(p, (I, Fl, Ag, En, Sq, Pt, Top, Md)):
                    d[k] = jv(p, q, path + ("m", k))
                    if k in ("len", "end") and type(d[k]) is I:
                        anchors.add(d[k].vid)
                elif p == q:
                    d[k] = p
                else:
                    raise Unsupported(f"join Md field {k}")
            return Md(x.kind, d)
        raise Unsupported(f"join {tx}")

    def carry(i, src):
        """an int that exists only on one side: keep its vid if free, with that side's interval"""
        t = i.vid
        if t not in out.itv:
            out.itv[t] = src.itv[t]
            (ma if src is a else mb)[t] = t
            if t in src.taint:
                out.taint.add(t, src.taint[t])
        else:
            lo, hi = out.itv[t]
            l2, h2 = src.itv[t]
            out.itv[t] = (min(lo, l2), max(hi, h2))
        return i

    def jv_loose(elem, hv, src, path):
        # join a value from one side only into an already joined value (intervals only)
        if type(elem) is I and type(hv) is I:
            lo, hi = out.itv[elem.vid]
            l2, h2 = src.itv[hv.vid]
            t = ("j", tag, path)
            out.itv[t] = (min(lo, l2), max(hi, h2))
            tt = tl(out, elem.vid)
            tb_ = tl(src, hv.vid)
            if tt is not None or tb_ is not None:
                out.taint.add(t, (tt or EMPTY) | (tb_ or EMPTY))
            return I(t, elem.ty)
        if type(elem) is Ag and type(hv) is Ag:
            return Ag(jv_loose(p, q, src, path + (i,)) for i, (p, q) in enumerate(zip(elem.f, hv.f)))
        return elem

    for k in a.store:
        if k in b.store:
            out.store[k] = jv(a.store[k], b.store[k], (k,))
    # model-local temporaries (not in the store) must survive joins inside nested analyses
    for pv in ctx.pins:
        for _, i in iter_ints(pv):
            t = i.vid
            if t not in out.itv and t in a.itv and t in b.itv:
                la, ha = a.itv[t]
                lb, hb = b.itv[t]
                out.itv[t] = (min(la, lb), max(ha, hb))
                ma.setdefault(t, t)
                mb.setdefault(t, t)
                tt = tl(a, t)
                tb_ = tl(b, t)
                if tt is not None or tb_ is not None:
                    out.taint.add(t, (tt or EMPTY) | (tb_ or EMPTY))
    if widen and not changed_scalar[0] and any(old != hull for (old, hull, _) in pending.values()):
        # staged widening: element abstractions are widened only once the scalars have been stable
        # for a few rounds
        cnt = ctx.memo.setdefault("elem_delay", {})
        cnt[tag] = cnt.get(tag, 0) + 1
        if cnt[tag] > 3:
            for t, (old, hull, ty) in pending.items():
                out.itv[t] = widen_itv(old, hull, thresholds, ctx.int_range(ty))
    # facts: keep those provable on both sides (using intervals as fallback)
    inv_a, inv_b = {}, {}
    for s, t in ma.items():
        inv_a.setdefault(t, s)
    for s, t in mb.items():
        inv_b.setdefault(t, s)
    cand = set()
    for (x, y) in a.facts:
        if x in ma and y in ma:
            cand.add((ma[x], ma[y]))
    for (x, y) in b.facts:
        if x in mb and y in mb:
            cand.add((mb[x], mb[y]))
    # relations to length-like symbols that were only implicit in the intervals must survive a join
    # that loosens the interval
    changed_t = []
    stable_syms = []
    for key, t in pair.items():
        if key[0] == key[1]:
            lo_, hi_ = out.itv[t]
            if lo_ != hi_ and a.itv[t] == b.itv[t] and len(stable_syms) < 40:
                stable_syms.append(t)       # an unchanged, non-constant quantity (e.g. a length or bound)
            if not widen or out.itv[t] == a.itv[t]:
                continue
        changed_t.append(t)
        for s_ in anchors:
            if s_ != t:
                cand.add((t, s_))
                cand.add((s_, t))       # both directions: `len - counter <= -1` is as much part of len == counter - 1 as its converse
    if len(changed_t) <= 14:
        for t1 in changed_t:
            for t2 in changed_t:
                if t1 != t2:
                    cand.add((t1, t2))
            for s_ in stable_syms:
                cand.add((t1, s_))
                cand.add((s_, t1))
    for (tx_, ty_) in cand:
        if tx_ == ty_:
            continue
        xa, ya, xb, yb = inv_a.get(tx_), inv_a.get(ty_), inv_b.get(tx_), inv_b.get(ty_)
        if xa is None or ya is None or xb is None or yb is None:
            continue
        ca = a.bound(xa, ya) if xa != ya else 0
        cb = b.bound(xb, yb) if xb != yb else 0
        if ca is None or cb is None:
            continue
        c = max(ca, cb)
        if widen:
            old = a.bound(xa, ya) if xa != ya else 0
            if old is None or c > old:
                # unstable relational bound: widen to the next threshold, or drop
                cands = [t for t in rel_thresholds if t >= c]
                if not cands:
                    continue
                c = min(cands)
        out.facts[(tx_, ty_)] = c
    # scale relations and provenance survive only if identical on both sides
    for v, (m, base) in a.scale.items():
        if v in ma and base in ma and ma[v] in inv_b:
            sb = b.scale.get(inv_b[ma[v]])
            if sb and sb[0] == m and mb.get(sb[1]) == ma[base]:
                out.scale[ma[v]] = (m, ma[base])
    if a.res and b.res:
        inv_a2, inv_b2 = {}, {}
        for s_, t in ma.items():
            inv_a2.setdefault(t, s_)
        for s_, t in mb.items():
            inv_b2.setdefault(t, s_)
        cand_pairs = {t: (xa, xb) for (xa, xb), t in pair.items()}
        for t in out.itv:
            xa, xb = cand_pairs.get(t, (inv_a2.get(t), inv_b2.get(t)))
            if xa in a.res and xb in b.res:
                pa, pb = a.res[xa], b.res[xb]
                if pa == pb:
                    out.res[t] = pa
                else:
                    syms = getattr(ctx, "res_syms", {})
                    ea = {n: a.itv[v][0] for n, v in syms.items() if v in a.itv and a.itv[v][0] == a.itv[v][1]}
                    eb = {n: b.itv[v][0] for n, v in syms.items() if v in b.itv and b.itv[v][0] == b.itv[v][1]}
                    for cand in (pa, pb):
                        if p_subst(p_add(cand, pa, -1), ea) == {} and p_subst(p_add(cand, pb, -1), eb) == {}:
                            out.res[t] = cand
                            break

    def unchanged(x):
        if ma.get(x) == x and mb.get(x) == x:
            return True
        if x not in ma and x not in mb and x in a.itv and x in b.itv and a.itv[x] == b.itv[x] and x not in out.itv:
            out.itv[x] = a.itv[x]
            ma[x] = x
            mb[x] = x
            return True
        return False
    for v, p in a.prov.items():
        if ma.get(v) == v and mb.get(v) == v and b.prov.get(v) == p and all(unchanged(x) for x in p[1]):
            out.prov[v] = p
    # known bits survive a join where both sides know the same bit with the same value
    eager = bool(getattr(ctx, "hooks", {}).get("kbits_eager"))
    ALL = (1 << 64) - 1

    def kb_side(stt, x):
        p_ = stt.prov.get(x)
        if p_ and p_[0] == "kbits":
            return p_[2]
        if eager and x in stt.itv:
            lo_, hi_ = stt.itv[x]
            if lo_ == hi_:
                return (ALL, lo_ & ALL)          # a constant: every bit known (two's complement, 64 bits)
        return None
    for (xa, xb), t in pair.items():
        if xa == xb or t in out.prov:
            continue
        ka_, kb_ = kb_side(a, xa), kb_side(b, xb)
        if ka_ and kb_:
            m = ka_[0] & kb_[0] & ~(ka_[1] ^ kb_[1])
            if m and t in out.itv and out.itv[t][0] != out.itv[t][1]:
                out.prov[t] = ("kbits", (), (m, ka_[1] & m))
    return out


IMPORTANT = []   # thresholds derived from the entry state of the function being analysed (lengths, bounds)


def widen_itv(old, new, thresholds, tyrange):
    lo, hi = new
    if lo < old[0]:
        want = lo - 2 * (old[0] - lo) if lo < 0 else lo
        cands = [t for t in thresholds if t <= want]
        imp = [t for t in IMPORTANT if t <= lo]
        lo2 = max(cands) if cands else tyrange[0]
        if imp and max(imp) >= lo2:
            lo2 = max(imp)
        lo = max(lo2, tyrange[0])
    if hi > old[1]:
        want = hi + 2 * (hi - old[1]) if hi > 0 else hi
        cands = [t for t in thresholds if t >= want]
        imp = [t for t in IMPORTANT if t >= hi]
        hi2 = min(cands) if cands else tyrange[1]
        if imp and min(imp) <= hi2:
            hi2 = min(imp)
        hi = min(hi2, tyrange[1])
    return lo, hi
