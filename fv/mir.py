"""Helpers over the serde dump of rustc_public MIR bodies: CFG, dominators, definitions, and an
expression-tree builder ("origin") that follows single definitions backwards."""
from .facts import const_of, const_ptr_target, CheckerError


def kind_of(x):
    """('Tag', payload) of a serde enum value."""
    if isinstance(x, str):
        return x, None
    (k, v), = x.items()
    return k, v


class Body:
    def __init__(self, inst):
        if inst.body is None:
            raise CheckerError(f"{inst.name}: no MIR body in facts")
        self.inst = inst
        self.prog = inst.prog
        b = inst.body
        self.raw = b
        self.blocks = b["blocks"]
        self.locals = b["locals"]
        self.arg_count = b["arg_count"]
        self.names = {}
        for v in b.get("var_debug_info", []):
            k, p = kind_of(v["value"])
            if k == "Place" and not p["projection"]:
                self.names.setdefault(p["local"], v["name"])
        self.succ = [self._succ(bb["terminator"]["kind"]) for bb in self.blocks]
        self.pred = [[] for _ in self.blocks]
        for i, ss in enumerate(self.succ):
            for s in ss:
                self.pred[s].append(i)
        self._defs = None
        self._dom = None
        self.calls = {e["bb"]: e["to"] for e in inst.edges if e["k"] == "call"}

    def local_ty(self, l):
        return self.prog.ty(self.locals[l]["ty"])

    @staticmethod
    def _succ(tk, with_unwind=False):
        k, v = kind_of(tk)
        out = []
        if k == "Goto":
            out = [v["target"]]
        elif k == "SwitchInt":
            out = [t for _, t in v["targets"]["branches"]] + [v["targets"]["otherwise"]]
        elif k in ("Drop", "Assert"):
            out = [v["target"]]
        elif k == "Call":
            out = [v["target"]] if v["target"] is not None else []
        elif k == "InlineAsm":
            out = [v["destination"]] if v.get("destination") is not None else []
        if with_unwind and isinstance(v, dict):
            u = v.get("unwind")
            if isinstance(u, dict) and "Cleanup" in u:
                out = out + [u["Cleanup"]]
        return out

    # ---------------------------------------------------------------- definitions
    def defs(self):
        """local -> list of (bb, idx, rvalue_or_call, projection) ; idx == -1 for terminator (call dest)."""
        if self._defs is None:
            d = {}
            for bi, bb in enumerate(self.blocks):
                for si, st in enumerate(bb["statements"]):
                    k, v = kind_of(st["kind"])
                    if k == "Assign":
                        place, rv = v
                        d.setdefault(place["local"], []).append((bi, si, rv, place["projection"]))
                    elif k == "SetDiscriminant":
                        d.setdefault(v["place"]["local"], []).append((bi, si, {"SetDiscriminant": v}, ["discr"]))
                tk, tv = kind_of(bb["terminator"]["kind"])
                if tk == "Call":
                    dst = tv["destination"]
                    d.setdefault(dst["local"], []).append((bi, -1, {"Call": tv}, dst["projection"]))
            self._defs = d
        return self._defs

    def mut_borrowed(self):
        """locals whose address is taken mutably (may be written through a pointer)."""
        c = getattr(self, "_mutb", None)
        if c is not None:
            return c
        out = set()
        self._mutb = out
        for bb in self.blocks:
            for st in bb["statements"]:
                k, v = kind_of(st["kind"])
                if k == "Assign":
                    rk, rv = kind_of(v[1])
                    if rk == "Ref" and rv[1] != "Shared" and "Deref" not in rv[2]["projection"]:
                        out.add(rv[2]["local"])
                    if rk == "AddressOf" and "Deref" not in rv[1]["projection"]:
                        out.add(rv[1]["local"])
        return out

    # ---------------------------------------------------------------- dominators
    def dominators(self):
        if self._dom is None:
            n = len(self.blocks)
            order = []
            seen = [False] * n
            stack = [(0, iter(self.succ[0]))]
            seen[0] = True
            while stack:
                v, it = stack[-1]
                adv = False
                for s in it:
                    if not seen[s]:
                        seen[s] = True
                        stack.append((s, iter(self.succ[s])))
                        adv = True
                        break
                if not adv:
                    order.append(v)
                    stack.pop()
            rpo = list(reversed(order))
            idx = {b: i for i, b in enumerate(rpo)}
            idom = {0: 0}
            changed = True
            while changed:
                changed = False
                for b in rpo[1:]:
                    ps = [p for p in self.pred[b] if p in idom]
                    if not ps:
                        continue
                    new = ps[0]
                    for p in ps[1:]:
                        a, c = p, new
                        while a != c:
                            while idx[a] > idx[c]:
                                a = idom[a]
                            while idx[c] > idx[a]:
                                c = idom[c]
                        new = a
                    if idom.get(b) != new:
                        idom[b] = new
                        changed = True
            self._dom = idom
            self.rpo = rpo
        return self._dom

    def dominates(self, a, b):
        idom = self.dominators()
        if b not in idom:
            return False
        while True:
            if a == b:
                return True
            if b == 0:
                return False
            b = idom[b]

    def reachable_from(self, start, avoid=()):
        seen = set()
        st = [start]
        while st:
            b = st.pop()
            if b in seen or b in avoid:
                continue
            seen.add(b)
            st.extend(self.succ[b])
        return seen

    def return_blocks(self):
        return [i for i, bb in enumerate(self.blocks) if kind_of(bb["terminator"]["kind"])[0] == "Return"]

    def call_sites(self, pred=None):
        """[(bb, callee Instance, args, destination)] for resolved direct calls."""
        out = []
        for bi, bb in enumerate(self.blocks):
            tk, tv = kind_of(bb["terminator"]["kind"])
            if tk == "Call":
                to = self.calls.get(bi)
                callee = self.prog.inst[to] if to is not None else None
                if pred is None or (callee is not None and pred(callee)):
                    out.append((bi, callee, tv["args"], tv["destination"]))
        return out

    def span_of(self, bb, idx=-1):
        if idx == -1 or idx >= len(self.blocks[bb]["statements"]):
            sp = self.blocks[bb]["terminator"]["span"]
        else:
            sp = self.blocks[bb]["statements"][idx]["span"]
        return self.prog.span_str(sp)

    # ---------------------------------------------------------------- expression trees
    def expr(self, operand, depth=40, _stack=None):
        """Expression tree for an operand, following definitions backwards.

        Nodes are tuples:
          ('const', tyid, value) | ('arg', n, proj) | ('phi', local, [nodes]) | ('opaque', local)
          ('bin', op, a, b) | ('chk', op, a, b) | ('un', op, a) | ('cast', kind, a, tyid)
          ('call', inst_id, name, [args]) | ('ref', mutbl, place) | ('agg', kind, [ops])
          ('place', base, proj)  base = node, proj = list of projection elems (Index holds a node)
          ('len', place) | ('discr', place) | ('repeat', a, n)
        """
        k, v = kind_of(operand)
        if k == "Constant":
            c = const_of(self.prog, operand)
            return ("const", c[0], c[1])
        if k in ("Copy", "Move"):
            return self.place_expr(v, depth, _stack)
        return ("opaque", k)

    def place_expr(self, place, depth=40, _stack=None):
        base = self.local_expr(place["local"], depth, _stack)
        if not place["projection"]:
            return base
        proj = []
        for pe in place["projection"]:
            pk, pv = kind_of(pe)
            if pk == "Index":
                proj.append(("Index", self.local_expr(pv, depth - 1, _stack)))
            elif pk == "Field":
                proj.append(("Field", pv[0]))
            else:
                proj.append((pk, pv))
        # collapse field-of-aggregate and field-of-checked
        while proj and base[0] == "agg" and proj[0][0] == "Field" and base[1] in ("Tuple", "Adt", "Closure") and proj[0][1] < len(base[2]):
            base = base[2][proj[0][1]]
            proj = proj[1:]
        if proj and base[0] == "chk" and proj[0][0] == "Field":
            if proj[0][1] == 0:
                base = ("bin", base[1], base[2], base[3])
            else:
                base = ("ovf", base[1], base[2], base[3])
            proj = proj[1:]
        if not proj:
            return base
        return ("place", base, proj)

    def local_expr(self, l, depth=40, _stack=None):
        _stack = _stack or ()
        if depth <= 0 or l in _stack:
            return ("opaque", l)
        if 1 <= l <= self.arg_count:
            ds = [d for d in self.defs().get(l, []) if not d[3]]
            if not ds:
                return ("arg", l)
        ds = self.defs().get(l, [])
        whole = [d for d in ds if not d[3]]
        partial = [d for d in ds if d[3]]
        if l in self.mut_borrowed() or partial:
            if len(whole) == 1 and not partial and False:
                pass
            return ("opaque", l)
        if len(whole) == 1:
            return self.rvalue_expr(whole[0][2], whole[0][0], depth - 1, _stack + (l,))
        if not whole:
            return ("opaque", l)
        return ("phi", l, [self.rvalue_expr(d[2], d[0], depth - 3, _stack + (l,)) for d in whole])

    def rvalue_expr(self, rv, bb, depth, _stack):
        k, v = kind_of(rv)
        E = lambda o: self.expr(o, depth, _stack)
        if k == "Use":
            return E(v[0])
        if k == "BinaryOp":
            return ("bin", v[0], E(v[1]), E(v[2]))
        if k == "CheckedBinaryOp":
            return ("chk", v[0], E(v[1]), E(v[2]))
        if k == "UnaryOp":
            return ("un", v[0], E(v[1]))
        if k == "Cast":
            ck = v[0] if isinstance(v[0], str) else kind_of(v[0])[1]
            if isinstance(ck, dict):
                ck = kind_of(ck)[0]
            return ("cast", ck, E(v[1]), v[2])
        if k == "Ref":
            return ("ref", v[1] if isinstance(v[1], str) else "Mut", self.place_expr(v[2], depth, _stack))
        if k == "AddressOf":
            return ("ref", "Raw", self.place_expr(v[1], depth, _stack))
        if k == "CopyForDeref":
            return self.place_expr(v, depth, _stack)
        if k == "Aggregate":
            ak, av = kind_of(v[0])
            return ("agg", ak, [E(o) for o in v[1]], av)
        if k == "Len":
            return ("len", self.place_expr(v, depth, _stack))
        if k == "Discriminant":
            return ("discr", self.place_expr(v, depth, _stack))
        if k == "Repeat":
            return ("repeat", E(v[0]), v[1])
        if k == "Call":
            to = self.calls.get(bb)
            name = self.prog.inst[to].name if to is not None else "?"
            return ("call", to, name, [E(a) for a in v["args"]])
        return ("opaque", k)


def walk(node, f):
    """pre-order walk over an expression tree; f(node) -> True to stop descending."""
    if not isinstance(node, tuple):
        return
    if f(node):
        return
    for c in node[1:]:
        if isinstance(c, tuple):
            walk(c, f)
        elif isinstance(c, list):
            for x in c:
                if isinstance(x, tuple):
                    if len(x) == 2 and x[0] == "Index":
                        walk(x[1], f)
                    else:
                        walk(x, f)


def strip(node):
    """Strip refs, derefs, pointer/unsize casts: get to the underlying object node."""
    while True:
        if node[0] == "ref":
            node = node[2]
        elif node[0] == "cast" and node[1] in ("Unsize", "PtrToPtr", "MutToConstPointer", "Transmute", "Subtype"):
            node = node[2]
        elif node[0] == "place" and all(p[0] == "Deref" for p in node[2]):
            node = node[1]
        else:
            return node


def show(node, prog=None, depth=6):
    if not isinstance(node, tuple):
        return repr(node)
    if depth == 0:
        return "…"
    t = node[0]
    S = lambda n: show(n, prog, depth - 1)
    if t == "const":
        v = node[2]
        if isinstance(v, tuple):
            return f"const<{v[0] if v else 'zst'}>"
        return repr(v)
    if t == "arg":
        return f"arg{node[1]}"
    if t in ("bin", "chk", "ovf"):
        return f"({S(node[2])} {node[1]}{'?' if t != 'bin' else ''} {S(node[3])})"
    if t == "un":
        return f"{node[1]}({S(node[2])})"
    if t == "cast":
        return f"{S(node[2])} as<{node[1]}>"
    if t == "call":
        nm = node[2].split("::")[-2:] if node[2] else ["?"]
        return f"{'::'.join(nm)}({', '.join(S(a) for a in node[3])})"
    if t == "ref":
        return f"&{S(node[2])}"
    if t == "place":
        return S(node[1]) + "".join("." + (str(p[1]) if p[0] == "Field" else p[0]) for p in node[2])
    if t == "phi":
        return f"phi_{node[1]}(" + " | ".join(S(a) for a in node[2]) + ")"
    if t == "agg":
        return f"{node[1]}{{" + ", ".join(S(a) for a in node[2]) + "}"
    return f"{t}:{node[1] if len(node) > 1 else ''}"


def pointer_const_alloc(prog, node):
    """If `node` (after stripping refs/casts) is a pointer constant, return (alloc_id, offset)."""
    n = strip(node)
    if n[0] == "const" and isinstance(n[2], tuple) and n[2] and n[2][0] == "ptr":
        a = n[2][1]
        off, aid = a["provenance"]["ptrs"][0]
        return aid, int.from_bytes(bytes(b or 0 for b in a["bytes"][off:off + 8]), "little")
    return None
