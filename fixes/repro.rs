use crate::encoding::{compress, decompress};
use crate::falcon::{PublicKey, SecretKey, Signature};
use crate::falcon_field::Felt;
use crate::polynomial::hash_to_point;
use bit_vec::BitVec;

fn bits_to_bytes(bits: &[bool], len: usize) -> Vec<u8> {
    let mut bv = BitVec::new();
    for &b in bits { bv.push(b); }
    while bv.len() < len * 8 { bv.push(false); }
    bv.to_bytes()
}
fn coeff(bits: &mut Vec<bool>, neg: bool, low: u8, high: usize) {
    bits.push(neg);
    for i in (0..7).rev() { bits.push((low >> i) & 1 != 0); }
    for _ in 0..high { bits.push(false); }
    bits.push(true);
}

#[test]
fn d1_boundary_norm_is_accepted() {
    let msg = b"boundary";
    let salt = [7u8; 40];
    let c = hash_to_point(&[salt.to_vec(), msg.to_vec()].concat(), 512);
    let mut s1 = vec![0i16; 512];
    s1[0] = 5833; s1[1] = 104; s1[2] = 4; s1[3] = 2;
    let norm: i64 = s1.iter().map(|&x| (x as i64) * (x as i64)).sum::<i64>() + 1;
    assert_eq!(norm, 34034726);
    let mut s2 = vec![0i16; 512];
    s2[0] = 1;
    // h = c - s1  (s2 = 1 => s2*h = h => s1 = c - h)
    let h: Vec<i16> = c.coefficients.iter().zip(s1.iter()).map(|(ci, si)| (ci.clone() - Felt::new(*si)).value()).collect();
    let mut pkbits = BitVec::from_bytes(&[9u8]);
    for hi in h.iter() { for i in (0..14).rev() { pkbits.push(hi & (1 << i) != 0); } }
    let pk = PublicKey::<512>::from_bytes(&pkbits.to_bytes()).unwrap();
    let s = compress(&s2, 625).unwrap();
    let sig = Signature::<512>::from_bytes(&[vec![0x59u8], salt.to_vec(), s].concat()).unwrap();
    assert!(crate::falcon::verify::<512>(msg, &sig, &pk));
}

#[test]
fn d2_pk_field_equal_q_rejected() {
    let mut pkbits = BitVec::from_bytes(&[9u8]);
    for k in 0..512 { let v: i16 = if k == 3 { 12289 } else { 5 }; for i in (0..14).rev() { pkbits.push(v & (1 << i) != 0); } }
    let bytes = pkbits.to_bytes();
    match PublicKey::<512>::from_bytes(&bytes) {
        Ok(pk) => assert_eq!(pk.to_bytes(), bytes, "accepted a non-canonical encoding"),
        Err(_) => {}
    }
}

#[test]
fn d3_aligned_cursor_at_last_byte() {
    // 510 coefficients totalling 4991 bits, then one more bit
    let mut bits = vec![];
    let mut extra = 4991 - 510 * 9;
    for _ in 0..510 { let h = extra.min(90); extra -= h; coeff(&mut bits, false, 1, h); }
    assert_eq!(bits.len(), 4991);
    bits.push(false);
    let x = bits_to_bytes(&bits, 625);
    assert_eq!(decompress(&x, 512), None);
}

#[test]
fn d3b_cursor_on_last_bit() {
    // 510 coefficients totalling 4983 bits; coefficient 511 = sign + 7 low bits = bits 4983..4990, unary part starts at 4991.. 
    // choose so that unary run starts at the last bit B-1 = 4999 and that bit is 0
    let mut bits = vec![];
    let mut extra = 4991 - 510 * 9;
    for _ in 0..510 { let h = extra.min(90); extra -= h; coeff(&mut bits, false, 1, h); }
    // cursor 4991: sign, 7 low bits -> 4999; bit 4999 = 0
    for _ in 0..8 { bits.push(false); }
    bits.push(false);
    let x = bits_to_bytes(&bits, 625);
    assert_eq!(decompress(&x, 512), None);
}

#[test]
fn d4_last_coefficient_unbounded_unary() {
    let mut bits = vec![];
    for _ in 0..511 { coeff(&mut bits, false, 1, 0); }
    coeff(&mut bits, true, 0, 256);
    let x = bits_to_bytes(&bits, 625);
    assert_eq!(decompress(&x, 512), None);
    let mut bits = vec![];
    for _ in 0..511 { coeff(&mut bits, false, 1, 0); }
    coeff(&mut bits, false, 0, 256);
    let x = bits_to_bytes(&bits, 625);
    assert_eq!(decompress(&x, 512), None);
    // largest legal value still decodes
    let mut bits = vec![];
    for _ in 0..511 { coeff(&mut bits, false, 1, 0); }
    coeff(&mut bits, true, 127, 94);
    let x = bits_to_bytes(&bits, 625);
    assert_eq!(decompress(&x, 512).unwrap()[511], -12159);
}

#[test]
fn d5_felt_new_all_i16() {
    for v in i16::MIN..=i16::MAX {
        let f = Felt::new(v);
        assert_eq!(f.value() as i32, (v as i32).rem_euclid(12289), "v={v}");
    }
}

#[test]
fn d6_seed_roundtrip_1024() {
    let mut seed = [0u8; 32];
    seed[..8].copy_from_slice(&5001636u64.to_le_bytes());
    let sk = SecretKey::<1024>::generate_from_seed(seed);
    let bytes = sk.to_bytes();
    let sk2 = SecretKey::<1024>::from_bytes(&bytes).unwrap();
    assert!(sk == sk2);
}

#[test]
fn d7_babai_zero_capital_fg() {
    // (F, G) = (0, 0) lies in C17's domain; the big-integer version returns Ok, the 32-bit one evaluated ilog2(0)
    use crate::math::{babai_reduce_bigint, babai_reduce_i32};
    use crate::polynomial::Polynomial;
    use num::BigInt;
    let f = Polynomial::new(vec![3i32, -1, 2, 1]);
    let g = Polynomial::new(vec![1i32, 2, -2, 1]);
    let mut cf = Polynomial::new(vec![0i32; 4]);
    let mut cg = Polynomial::new(vec![0i32; 4]);
    let (fb, gb) = (f.map(|&c| BigInt::from(c)), g.map(|&c| BigInt::from(c)));
    let (mut cfb, mut cgb) = (cf.map(|&c| BigInt::from(c)), cg.map(|&c| BigInt::from(c)));
    assert!(babai_reduce_bigint(&fb, &gb, &mut cfb, &mut cgb).is_ok());
    assert!(babai_reduce_i32(&f, &g, &mut cf, &mut cg).is_ok());
    assert_eq!(cf.map(|&c| BigInt::from(c)), cfb);
    assert_eq!(cg.map(|&c| BigInt::from(c)), cgb);
}

// ---- known findings (not fixed): these tests FAIL on the current tree and document the input
#[test]
fn k1_sampler_z_large_centre() {
    use rand::SeedableRng;
    let mut rng = rand::rngs::StdRng::from_seed([1u8; 32]);
    for _ in 0..50 {
        // |mu| >= 2^15 - 19: `z + (s as i16)` overflows
        let _ = crate::samplerz::sampler_z(40000.0, 1.5, 1.2778336969128337, &mut rng);
    }
}

#[test]
fn k2_ber_exp_seven_byte_tie() {
    // the 7 random bytes equal the top 7 bytes of z: the 8th loop round indexes random_bytes[7]
    let (x, ccs) = (0.3f64, 0.75f64);
    let z = crate::samplerz::repro_z(x, ccs);
    let b = z.to_be_bytes();
    let _ = crate::samplerz::repro_ber_exp(x, ccs, [b[0], b[1], b[2], b[3], b[4], b[5], b[6]]);
}
