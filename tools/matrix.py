#!/usr/bin/env python3
"""catch matrix: apply every seeded change to a scratch copy of /repo's working tree (outside /repo and /verif,
removed afterwards), run the relevant checks against that copy (FALCON_REPO / FALCON_OUT_DIR point the harness at it),
record which report a VIOLATION in seeded/<id>/meta.json.   Usage: matrix.py [-j K] [--all-checks] [id ...]
Checks that read /repo through the witness crate (C01's Send/Sync witnesses) see the unpatched tree in this mode;
use --serial to patch /repo itself instead (always reverted)."""
import json, os, subprocess, sys, shutil, tempfile
from concurrent.futures import ThreadPoolExecutor
V = os.path.dirname(os.path.dirname(os.path.abspath(__file__)))
argv = sys.argv[1:]
J = 8
if "-j" in argv:
    i = argv.index("-j"); J = int(argv[i + 1]); del argv[i:i + 2]
allc = "--all-checks" in argv
serial = "--serial" in argv
ids = [a for a in argv if not a.startswith("--")]
claimed = [c["property_id"] for c in json.load(open(os.path.join(V, "MANIFEST.json")))["checks"]]
todo = []
for sid in sorted(os.listdir(os.path.join(V, "seeded"))):
    if ids and sid not in ids:
        continue
    if os.path.exists(os.path.join(V, "seeded", sid, "meta.json")):
        todo.append(sid)
assert subprocess.run("git -C /repo status --porcelain", shell=True, capture_output=True, text=True).stdout.strip() == "", "/repo not clean"
ROOT = tempfile.mkdtemp(prefix="fvmx.")


def one(sid):
    d = os.path.join(V, "seeded", sid)
    mp = os.path.join(d, "meta.json")
    meta = json.load(open(mp))
    checks = claimed if allc else sorted(set(([meta["breaks_property"]] if meta.get("breaks_property") in claimed else []) + [c for c in meta.get("expect", []) + meta.get("caught_by", []) if c in claimed]))
    env = dict(os.environ, FALCON_FACTS_KEEP="80")
    if serial:
        subprocess.run(f"git -C /repo apply {d}/patch.diff", shell=True, check=True)
    else:
        w = os.path.join(ROOT, sid)
        os.makedirs(w)
        subprocess.run(f"rsync -a --exclude target --exclude .git /repo/ {w}/repo/", shell=True, check=True)
        subprocess.run(f"git apply {d}/patch.diff", shell=True, check=True, cwd=os.path.join(w, "repo"))
        env.update(FALCON_REPO=os.path.join(w, "repo"), FALCON_OUT_DIR=os.path.join(w, "out"))
    caught, silent = [], []
    try:
        for c in checks:
            p = subprocess.run(f"./check {c} --tier quick", shell=True, cwd=V, capture_output=True, text=True, env=env)
            if p.returncode == 1 and "VIOLATION property=" in p.stdout:
                rules = sorted({l.split("rule ")[1].split(" at ")[0] for l in p.stdout.splitlines() if l.strip().startswith("rule ")})
                caught.append({"check": c, "rules": rules})
            elif p.returncode == 0:
                silent.append(c)
            else:
                caught.append({"check": c, "rules": ["CHECKER-ERROR exit %d: %s" % (p.returncode, p.stdout[-300:])]})
    finally:
        if serial:
            subprocess.run("git -C /repo checkout -- . && git -C /repo clean -fdq", shell=True)
        else:
            shutil.rmtree(os.path.join(ROOT, sid), ignore_errors=True)
    meta["caught_by"] = sorted({x["check"] for x in caught if not x["rules"][0].startswith("CHECKER-ERROR")})
    meta["caught_detail"] = caught
    meta["silent"] = silent
    if meta.get("benign"):
        meta["false_alarms"] = caught
    json.dump(meta, open(mp, "w"), indent=1)
    if meta.get("benign"):
        print(sid, "BENIGN:", "all silent" if not caught else f"FALSE ALARM {[(x['check'], x['rules']) for x in caught]}", "silent:", silent, flush=True)
    else:
        print(sid, "caught by", [(x["check"], x["rules"]) for x in caught], "silent:", silent, flush=True)


try:
    if serial:
        for s in todo:
            one(s)
    else:
        with ThreadPoolExecutor(J) as ex:
            list(ex.map(one, todo))
finally:
    shutil.rmtree(ROOT, ignore_errors=True)
