#!/usr/bin/env python3
"""import confirmed sub-agent mutants from a scratch directory into /verif/seeded/<id>/ (patch.diff, demo.rs,
README.md, meta.json). Usage: seed_import.py /tmp/mut [tag]   (tag, e.g. r2, is put between the property id and the mutant name)"""
import json, os, re, shutil, sys
V = os.path.dirname(os.path.dirname(os.path.abspath(__file__)))
src = sys.argv[1]
tag = sys.argv[2] if len(sys.argv) > 2 else ""
for pid in sorted(os.listdir(src)):
    for m in ("m1", "m2", "m3"):
        D = os.path.join(src, pid, m)
        cf = os.path.join(D, "confirm.json")
        if not os.path.exists(cf):
            continue
        c = json.load(open(cf))
        if not c.get("confirmed"):
            print("skip (not confirmed)", pid, m)
            continue
        out = os.path.join(V, "seeded", f"{pid}-{tag}{m}")
        os.makedirs(out, exist_ok=True)
        for f in ("patch.diff", "demo.rs", "README.md"):
            shutil.copy(os.path.join(D, f), os.path.join(out, f))
        readme = open(os.path.join(D, "README.md")).read()
        title = readme.splitlines()[0].lstrip("# ").strip()
        mm = re.search(r"^##+ What it needs[^\n]*\n+(.*?)(?=\n## |\Z)", readme, re.S | re.M)
        needs = re.sub(r"\s+", " ", mm.group(1)).strip()[:600] if mm else ""
        meta = {
            "id": f"{pid}-{tag}{m}", "breaks_property": pid, "title": title, "needs_to_manifest": needs,
            "origin": "written by a fresh sub-agent that saw only the property text and its own scratch worktree",
            "confirmed_by": {
                "where": "scratch git worktree of /repo outside /repo and /verif (removed afterwards)",
                "demo_cmd": c["demo_cmd"] + "   (demo.rs dropped in as falcon-rust/src/demo.rs, `#[cfg(test)] mod demo;` appended to lib.rs)",
                "demo_without_patch_exit": c["demo_without_patch"]["exit"],
                "demo_with_patch_exit": c["demo_with_patch"]["exit"],
                "suite_cmd": "cargo test --workspace --no-fail-fast --offline",
                "suite_with_patch": {"failed_tests": c["suite_with_patch"]["failed"], "results": c["suite_with_patch"]["results"]},
            },
            "caught_by": [], "missed_by_design": None,
        }
        old = os.path.join(out, "meta.json")
        if os.path.exists(old):
            o = json.load(open(old))
            meta["caught_by"] = o.get("caught_by", [])
            meta["missed_by_design"] = o.get("missed_by_design")
        json.dump(meta, open(old, "w"), indent=1)
        print("imported", pid, m)
