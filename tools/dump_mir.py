import sys,json
sys.path.insert(0,'/verif')
from fv.facts import Program
from fv.mir import Body, kind_of
P=Program(sys.argv[1])
def short(o):
    k,v=kind_of(o)
    if k in('Copy','Move'):
        return ('mv ' if k=='Move' else '')+place(v)
    if k=='Constant':
        from fv.facts import const_of
        c=const_of(P,o); t=P.ty(c[0]).s
        if c[1]==(): return f'<{t[:60]}>'
        if isinstance(c[1],tuple): return f'const[{c[1][0]}]:{t[:40]}'
        return f'{c[1]}_{t}'
    return str(o)[:60]
def place(p):
    s=f"_{p['local']}"
    for pe in p['projection']:
        k,v=kind_of(pe)
        if k=='Deref': s=f'(*{s})'
        elif k=='Field': s+=f'.{v[0]}'
        elif k=='Index': s+=f'[_{v}]'
        elif k=='Downcast': s+=f' as v{v}'
        else: s+=f'.{k}{v}'
    return s
def rv(r):
    k,v=kind_of(r)
    if k=='Use': return short(v[0])
    if k in('BinaryOp','CheckedBinaryOp'): return f"{k[:3]} {v[0]}({short(v[1])}, {short(v[2])})"
    if k=='UnaryOp': return f"{v[0]}({short(v[1])})"
    if k=='Cast': return f"{short(v[1])} as {P.ty(v[2]).s[:50]} [{v[0] if isinstance(v[0],str) else kind_of(v[0])}]"
    if k=='Ref': return f"&{'' if v[1]=='Shared' else 'mut '}{place(v[2])}"
    if k=='Aggregate':
        ak,av=kind_of(v[0]); 
        return f"{ak}{'#'+str(av[1]) if ak=='Adt' else ''}({', '.join(short(o) for o in v[1])})"
    if k in('Len','Discriminant','CopyForDeref'): return f"{k}({place(v)})"
    if k=='Repeat': return f"[{short(v[0])}; n]"
    if k=='AddressOf': return f"&raw {place(v[1])}"
    return k+str(v)[:80]
def dump(inst):
    b=Body(inst)
    print(f"fn {inst.name}  [{inst.id}] args={b.arg_count}")
    for i,l in enumerate(b.locals): print(f"   _{i}: {P.ty(l['ty']).s[:90]}  {b.names.get(i,'')}")
    for bi,bb in enumerate(b.blocks):
        print(f" bb{bi}:")
        for st in bb['statements']:
            k,v=kind_of(st['kind'])
            if k=='Assign': print(f"    {place(v[0])} = {rv(v[1])}")
            elif k in('StorageLive','StorageDead','Nop','FakeRead','PlaceMention','AscribeUserType'): pass
            else: print(f"    {k} {str(v)[:100]}")
        tk,tv=kind_of(bb['terminator']['kind'])
        if tk=='Call':
            to=b.calls.get(bi); nm=P.inst[to].name if to is not None else '?'
            print(f"    {place(tv['destination'])} = call {nm}({', '.join(short(a) for a in tv['args'])}) -> bb{tv['target']}")
        elif tk=='SwitchInt': print(f"    switch {short(tv['discr'])} {tv['targets']['branches']} else bb{tv['targets']['otherwise']}")
        elif tk=='Assert':
            mk,mv=kind_of(tv['msg'])
            print(f"    assert {short(tv['cond'])}=={tv['expected']} [{mk}] -> bb{tv['target']}")
        elif tk=='Drop': print(f"    drop {place(tv['place'])} -> bb{tv['target']}")
        elif tk=='Goto': print(f"    goto bb{tv['target']}")
        else: print(f"    {tk}")
for n in sys.argv[2:]:
    for i in P.find(n,unique=False) or P.find_re(n): dump(i)
