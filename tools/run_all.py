#!/usr/bin/env python3
"""run every registered check (quick tier by default) and print one line each"""
import json, subprocess, sys, time, os
V = os.path.dirname(os.path.dirname(os.path.abspath(__file__)))
m = json.load(open(os.path.join(V, "MANIFEST.json")))
tier = sys.argv[1] if len(sys.argv) > 1 else "quick"
bad = 0
for c in m["checks"]:
    t = time.time()
    cmd = c["quick_cmd"] if tier == "quick" else c.get("thorough_cmd", c["quick_cmd"])
    p = subprocess.run(cmd, shell=True, cwd=V, stdout=subprocess.PIPE, stderr=subprocess.STDOUT, text=True)
    last = [l for l in p.stdout.splitlines() if l.startswith(("OK", "VIOLATION", "CHECKER"))]
    print(f"{c['property_id']} exit={p.returncode} {time.time()-t:6.1f}s  {last[-1][:150] if last else p.stdout[-200:]}")
    bad += p.returncode != 0
sys.exit(1 if bad else 0)
