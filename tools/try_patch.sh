#!/bin/sh
# tools/try_patch.sh <patch.diff> <ID>... : apply a seeded change to /repo, run the checks, undo it.
P="$1"; shift
cd /repo || exit 2
git diff --quiet || { echo "/repo has uncommitted changes"; exit 2; }
git apply "$P" || { echo "patch does not apply"; exit 2; }
trap 'git -C /repo checkout -- . >/dev/null 2>&1' EXIT INT TERM
for id in "$@"; do
  echo "=== $id on $(basename $(dirname $P))/$(basename $P)"
  /verif/check "$id" --tier "${TIER:-quick}" 2>&1 | grep -v "^\[facts\]" | head -${LINES_MAX:-12}
  echo "exit=$?"
done
