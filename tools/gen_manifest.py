#!/usr/bin/env python3
"""regenerate /verif/MANIFEST.json from the table below (kept next to the checks it describes)"""
import json, os, sys
V = os.path.dirname(os.path.dirname(os.path.abspath(__file__)))
TRUST = "Trusted base: rustc's type checker, CTFE and MIR construction (nightly 1.97), the E0 extractor, the E2 abstract interpreter and its model table of std/bit-vec/itertools/num/rand/sha3 (fv/models.py), the oracles (Falcon spec constants re-derived with mpmath; vendored PQClean C sources). "
CHECKS = {
 "C11": dict(cat="other", tech="CTFE table arithmetic (exhaustive) + abstract interpretation of the transform entry points",
   text="Static: all 2048 production twiddle-table entries (as evaluated by the compiler) are psi^(+-bitrev(i)) for one primitive 2048-th root of unity; for each of the 11 supported lengths the n^-1 constant that reaches the inverse butterfly satisfies n*ninv=1 mod q; each entry point passes the right table. This is what the suite leaves open (it never compares the production tables with anything). The butterflies' algebra over all inputs is not decided.",
   note=TRUST + "Undecided clause: generic butterfly algebra for every n and input (C11-4).", ref="4/C11"),
 "C12": dict(cat="proof", tech="abstract interpretation: intervals + residue classes mod q + trace partitioning",
   text="Static proof obligations over ALL inputs: for Felt::new (every i16) and add/sub/neg/mul/multiply/inverse_or_zero/div/value/balanced_value/zero/one and the *_assign forms (every canonical pair) the abstract result lies in [0,q) (resp. [-6144,6144]) and carries the mathematically correct residue class as a polynomial identity mod q in the input symbols; every overflow/division assert in those bodies is discharged; every site that constructs a Felt is one of the analysed functions; batch inversion is analysed symbolically for every zero/non-zero pattern of lengths 1..3. The suite samples 100 random pairs; this covers the edge residues (0, q-1, -q, i16::MIN) by construction.",
   note=TRUST + "Invariant assumed inductively: Felt arguments are canonical. Batch inversion for lengths > 3 is not decided.", ref="4/C12"),
 "C03": dict(cat="other", tech="abstract interpretation of the decoder/verify cones: intervals + symbolic difference bounds + exact unrolling of length-controlled loops",
   text="Static: every panic source (overflow/bounds/division asserts, explicit panics, unwrap, modelled preconditions, unmodelled may-panic calls) met in the cones of the three from_bytes decoders (input length partitioned below/at/above the specified size, bytes arbitrary) and of verify (message arbitrary, signature/public key any value of their type, type invariants from a constructor census) is an obligation that the abstract interpreter discharges for ALL inputs, for both variants, in the dev profile (overflow checks on). The NTT layer is discharged by unrolling the length-determined index skeleton. This is the class of input (crafted byte strings) the suite never feeds.",
   note=TRUST + "Assumed (listed in the evidence): from_b0's floating-point LDL construction on decoded secret keys (assumption h); in the quick tier the n=1024 transform layer (unrolled in the thorough tier). Not claimed: termination of the hash rejection loop, memory exhaustion.", ref="4/C03"),
 "C14": dict(cat="proof", tech="abstract interpretation of hash_to_point: predicate extraction on the 16-bit sample, XOF identity, use analysis of n; call-graph effect analysis",
   text="Static, for every input string and both degrees: the XOF is sha3 SHAKE-256 absorbed once with exactly the input and squeezed 2 bytes at a time; bytes are combined big-endian; a sample is kept iff t in [0,61444] (characterised on the whole 16-bit range, equals 5q-1 and PQClean's threshold); the pushed value is t mod q and canonical; the result has exactly n coefficients; n influences only the loop exit (prefix property); the cone has no entropy/OS leaf. The suite has 3 known-answer strings and cannot see a threshold off by one (hit by ~1% of inputs).",
   note=TRUST + "SHAKE-256 itself (sha3 crate) is trusted.", ref="4/C14"),
 "C06": dict(cat="other", tech="input-partitioned abstract interpretation of the three decoders",
   text="Static, for every byte string and both variants: Ok is unreachable below/above the specified length; with the first byte fixed to each of its 256 values Ok is reachable for exactly the value the encoder writes (wrong header bits and the other variant's parameters are Err); every public-key coefficient that reaches the field on a non-Err path lies in [0,q-1] (no silent reduction of a field >= q); an accepted signature stores salt and body verbatim. Full bit-level round-trip equality for keys and the secret-key reserved pattern are not decided.",
   note=TRUST + "Not decided: bit-level inverse-ness of the packing loops; secret-key reserved pattern.", ref="4/C06"),
 "C08": dict(cat="other", tech="abstract interpretation of sign with value labels (origin / reaching definition of the salt array)",
   text="Static, both variants: the salt returned in the signature is byte-for-byte the output of one fill_bytes call on the whole 40-byte array, drawn from the rand::thread_rng() handle created inside the same call of sign; nothing overwrites it; it does not depend on message or key; the hashed string contains that same draw and the message. Non-repetition itself is the CSPRNG's contract.",
   note=TRUST + "Assumes rand::ThreadRng is an OS-seeded CSPRNG. Heavy numerical callees of sign are opaque in this run (they cannot touch the salt array: it is never passed to them).", ref="4/C08"),
 "C15": dict(cat="other", tech="whole-program effect analysis on the monomorphic call graph + abstract interpretation of the seed flow + rustc unsafe_code lint",
   text="Static: the monomorphic cones of keygen / generate_from_seed / from_secret_key (dyn RngCore resolved via the unsize coercions present) reach no OS/entropy/time/env leaf and no static outside an allow-list (positive control: sign and SecretKey::generate do reach OS entropy); each of the 32 seed bytes reaches StdRng::from_seed unmodified and in place, that generator is what ntru_gen receives, and ntru_gen/gen_poly/sampler_z draw only from their generator parameter; the crate has no static, thread-local or unsafe code. `Every seed bit matters` is not decided.",
   note=TRUST + "std's precompiled non-generic functions are opaque leaves classified by name (rules/effects.py).", ref="4/C15"),
 "C01": dict(cat="other", tech="predicate agreement sign/verify, budget and salt identity, message-label flow, Send/Sync + no-unsafe/no-static witnesses",
   text="Static necessary conditions of `every honest signature verifies` under any thread schedule: the signer keeps a candidate iff its squared norm <= floor(beta^2) and the verifier accepts iff X <= the same constant; compress gets sig_bytelen-41 bytes, returns exactly that many, from_bytes stores and verify decompresses exactly those with n=N; the returned salt is the hashed draw; no branch/index depends on raw message bytes or message length; keys/signatures are Send+Sync, sign/verify take shared references (compile-pass/compile-fail witnesses with twins), no unsafe code, no static/thread-local. The lattice algebra of ffSampling (clause 1) is NOT decided.",
   note=TRUST + "Clause 1 (signature vector on the coset and within the bound for every sampler outcome and float rounding) is not decided; the reader/writer agreement for exactly-full encodings is decided under C07 (clauses 7/8).", ref="4/C01"),
 "C02": dict(cat="other", tech="abstract evaluation of the parameter table vs spec/PQClean; predicate extraction from verify's return value; ingredient labels; effect analysis",
   text="Static: sig_bound/n/sig_bytelen evaluate to the re-derived specification values and PQClean's; verify returns only the constant false (decompression failed) or the comparison X <= floor(beta^2), characterised as an integer half-line (so <, <=, off-by-one constants are distinguished); X depends on H(salt,msg), body and key; it is the sum of exactly two N-term sums of squares, one of decoded coefficients (signature-only), one of centred representatives in [-6144,6144] (all inputs); verify's cone is deterministic; HashToPoint clauses shared with C14. The suite has no negative or boundary verification test.",
   note=TRUST + "Not decided: correctness of s1 = c - s2*h through the NTT for all inputs (tables/wiring: C11; element arithmetic: C12).", ref="4/C02"),
 "C07": dict(cat="other", tech="abstract interpretation of the codec with trace partitioning (branches, loop peeling): obligations, pushed ranges, negative zero, padding, budget and layout instances, cursor bounds",
   text="Static, for every byte string (len <= 2^32) and n in [1,2^16]: decompress cannot panic; every pushed coefficient is within +-12159 at both push sites; negative zero cannot be emitted without the invalid flag and Some requires the flag clear; two data-dependent padding tests follow the last coefficient; each unary run is left towards acceptance only on a terminator read inside the buffer (truncated encodings rejected) and the last terminator may sit on the last buffer bit for empty and non-empty unary parts (exactly-full encodings readable); compress_coefficient's layout for all 190 coefficient classes; compress's budget on boundary classes. decompress(compress(v))=v as a function is not decided.",
   note=TRUST + "Assumed: compress's byte indexing (prefix-sum invariant, reason in the evidence). Not decided: functional inverse-ness on all inputs.", ref="4/C07"),
 "C09": dict(cat="other", tech="CTFE constants vs spec/PQClean; abstract interpretation of the sampler building blocks with symbolic float tags and bounded unrolling",
   text="Static: RCDT and the 13 FACCT constants equal the specification and PQClean; 1/(2 sigma_max^2), ln 2 and sigma* within 1 ulp / 1e-9; base_sampler = #{i: u < RCDT[i]} over all 18 entries with u the big-endian zero-extended 72-bit value; sampler_z's ccs, exponent ingredients, rejection guard and three draws per round; the 128-bit shift saturates at 63; every integer assert in sampler_z/base_sampler/ber_exp/approx_exp is an obligation for every mu, sigma' in [sigma_min,1.8205] and byte stream — approx_exp proved total on its domain; two obligations genuinely fail (known findings K1: i16 overflow for |mu| >= 2^15-19, K2: 8th byte index on a 7-byte tie). Distribution, termination and bit-exact equality with the reference exponential are not decided.",
   note=TRUST + "Assumed: ber_exp hands approx_exp a remainder in [0, ln 2] (relational float fact). Known findings K1, K2 listed in known_findings.json.", ref="4/C09"),
 "C13": dict(cat="other", tech="CTFE table accuracy against mpmath; abstract interpretation of the complex transform entry points",
   text="Static: each of the 1024 complex twiddles (compiler-evaluated) is within 2^-49 of exp(i*pi*bitrev(i)/1024) at 50-digit precision; for n = 2..1024 fft/merge pass that table, ifft/split pass element-for-element the conjugates of its first n entries, ifft scales by exactly 1/n. The 2^-30 error bound for all inputs is a rounding-error argument whose only repository-specific premise is the table accuracy; it and the butterflies' algebra are not decided.",
   note=TRUST + "Not decided: numerical error bound over all inputs; split/merge formulas.", ref="4/C13"),
 "C05": dict(cat="other", tech="exact unrolling of the key encoders (byte counts, headers), CTFE widths vs spec/PQClean, element-wise refinement of gen_b0's retry guard, effect analysis of from_b0",
   text="Static, both variants: SecretKey::to_bytes / PublicKey::to_bytes / Signature::to_bytes emit exactly 1281/897/666 resp. 2305/1793/1280 bytes with the specified header byte; field_element_width equals the specification's and PQClean's max_fg_bits/max_FG_bits; every polynomial gen_b0 returns satisfies |c| <= 2^(width-1)-1 coefficient-wise for its own width (so the encoder's two's-complement truncation is lossless for every key generation outcome, whatever ntru_gen produced); from_b0's cone is deterministic (decoding rebuilds the same tree).",
   note=TRUST + "Not decided: bit-level inverse-ness of the packing loops for all values (round-trip equality); ntru_gen is opaque in the representability clause (its outputs are unconstrained i16).", ref="4/C05"),
 "C16": dict(cat="other", tech="sibling cross-check: CTFE constants and abstractly evaluated layout of this crate against constants parsed from the vendored PQClean C sources",
   text="Static agreement with the reference (PQClean sources, parsed not run): three byte sizes per variant, l2bound and the acceptance operator (X <= bound), sigma_min and 1/sigma, secret-key field widths, decoder acceptance of the reference's key header bytes, the documented signature label difference (0x5n here / 0x3n there, same log n), 14-bit public-key fields with values >= q rejected, most-significant-bit-first packing, HashToPoint (SHAKE-256, big-endian 16-bit samples, keep iff t < 61445, reduce mod q), RCDT and FACCT tables.",
   note=TRUST + "Not decided: that each implementation accepts the other's signatures (dynamic); compressed-signature body layout agreement is covered on this side by C07.", ref="4/C16"),
 "C10": dict(cat="other", tech="symbolic expression extraction by abstract interpretation of the signing pipeline + identity testing against the specified formulas; constants vs re-derived values; call-event data flow",
   text="Static structural preconditions of the distribution claim (the distribution itself is NOT decided): sigma and sigmin of both variants equal the re-derived specification values and sigma/sigmin = 1.17 sqrt q; gram = B B*, ldl (l10 = g10/g00, d11 = g11 - |l10|^2 g00), ffldl's recursion/leaf structure, normalize_tree's leaf update sigma/sqrt(leaf) with zeroed slots and same-sigma recursion, from_b0 = normalize(ffldl(gram(fft b0)), sigma_N) with SecretKey built nowhere else, ffsampling's leaf (sampler_z(t_i, leaf, params.sigmin, rng), result exactly the two sampler outputs) and branch (right child first, t0' = t0 + (t1 - z1) l10, result (z0, z1)), and sign's algebra (t = (c,0)B^-1, s = (t - z)B'' on the verifier's coset for every sampler output, B''B''* = Gram of the key basis, norm over both components, s1 emitted after round) are each decided by comparing the expression tree the interpreter extracts from the MIR with the specified formula at random points.",
   note=TRUST + "Identity testing: error probability negligible. Not decided: any statistical statement; floating-point error; the transforms' numerics (tables: C13).", ref="4/C10"),
 "C04": dict(cat="other", tech="abstract interpretation of ntru_gen with partitioned symbolic callee models (gate reachability), identity testing of the Gram-Schmidt norm, residue/label flow in from_secret_key and from_b0, constants vs re-derived values",
   text="Static, for every seed (structural part only): in ntru_gen the NTRU solver and `return` are reachable exactly when every NTT coefficient of f is non-zero (all zero/non-zero patterns of a length-2 transform enumerated) and gamma <= 1.17^2 q (threshold value and direction, boundary points); the tested f, g are the ones solved for and returned, in the order (f, g, F, G); gen_poly draws 4096 times sampler_z(0, sigma* = 1.17 sqrt(q/8192), ..) and sums chunks of 4096/n; gram_schmidt_norm_squared equals max(|f|^2+|g|^2, |q f*/(ff*+gg*)|^2 + |q g*/(ff*+gg*)|^2) (identity test on the extracted expression, both regimes of the max); from_secret_key returns ifft(ntt(g)/ntt(f)) with g = b0[0], f = -b0[1] as residues mod q; from_b0 = normalize_tree(ffldl(gram(fft b0)), sigma_N) and SecretKey is constructed nowhere else.",
   note=TRUST + "NOT decided: that ntru_solve's output satisfies f G - g F = q, that h f = g (transform algebra), and the numerical range of the tree leaves — algebra and floating point at run-time magnitudes. The silent i32->i16 narrowing of F, G in ntru_gen is not decided either (DESIGN.md, C04-3).", ref="4/C04"),
}
NA = {
 "C17": "algebraic/numeric equivalence of two Babai reductions at run-time magnitudes; no structural clause that is both decidable and a substantial necessary condition (DESIGN.md section 4, C17)",
}
PENDING = "check not built yet (build in progress; DESIGN.md section 8 gives the order)"
props = [json.loads(l) for l in open(os.path.join(V, "properties.jsonl"))]
checks = []
na = []
for p in props:
    pid = p["id"]
    if pid in CHECKS:
        c = CHECKS[pid]
        checks.append({
            "property_id": pid,
            "quick_cmd": f"./check {pid} --tier quick",
            "thorough_cmd": f"./check {pid} --tier thorough",
            "evidence_file": f"/verif/evidence/{pid}.json",
            "replay_cmd_template": f"./check {pid} --replay {{path}}",
            "engine": "falcon-static",
            "level_claimed": {"category": c["cat"], "text": c["text"], "design_ref": "DESIGN.md section " + c["ref"]},
            "level_note": c["note"],
            "technique": c["tech"],
        })
    else:
        na.append({"property_id": pid, "reason": NA.get(pid, PENDING)})
m = {
 "version": 1,
 "setup_cmd": "cd /verif/e0 && CARGO_NET_OFFLINE=true cargo +nightly build --release --offline && cd /verif && python3-vt -c 'import mpmath, jsonschema'",
 "hooks": {"guard": "falcon_rust_verif", "enable": "none needed: the fact extractor reads private items from the compiler's MIR; checks rebuild facts from /repo's working tree with cargo +nightly check under RUSTC_WORKSPACE_WRAPPER",
           "baseline_off_cmd": "cd /repo && cargo test --workspace --no-fail-fast --offline", "source_commits": [], "add_only": True},
 "engines": [{"name": "falcon-static", "path": "/verif/fv", "serves_properties": sorted(CHECKS),
              "kind_free_text": "static analysis: rustc_public fact extractor (monomorphic MIR + CTFE constants + call graph) and a Python abstract interpreter (intervals, symbolic difference bounds, scale relations, trace partitioning), rule scripts per property, type-level witnesses"}],
 "checks": checks,
 "not_applicable": na,
 "notes": "Repository fixes (unguarded `fix:` commits) and known findings are listed in /verif/known_findings.json and DESIGN.md section 6.",
}
json.dump(m, open(os.path.join(V, "MANIFEST.json"), "w"), indent=1)
import jsonschema
jsonschema.validate(m, json.load(open("/root/.vp/MANIFEST.schema.json")))
print("MANIFEST ok:", len(checks), "checks,", len(na), "not applicable")
