#!/usr/bin/env python3
"""debug: run one rule module and print every rule instance (does not write evidence)"""
import sys, os, importlib
sys.path.insert(0, os.path.dirname(os.path.dirname(os.path.abspath(__file__))))
from fv.harness import Result
pid = sys.argv[1]
tier = sys.argv[2] if len(sys.argv) > 2 else "quick"
mod = importlib.import_module(f"rules.{pid.lower()}")
R = Result(pid, tier)
mod.run(R)
for o in R.obl:
    print(f"{o['status'][:4]} {o['rule']} | {o['site']} | {o['detail'][:160]}")
print(R.floors)
