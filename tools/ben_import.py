#!/usr/bin/env python3
"""import confirmed behaviour-preserving refactors written by sub-agents (scratch dir /tmp/ben/<file>/rN) into seeded/benign-<file>-rN"""
import json, os, re, shutil, sys
V = os.path.dirname(os.path.dirname(os.path.abspath(__file__)))
src = sys.argv[1]
EXPECT = {"encoding": ["C07", "C03", "C01", "C02"], "falcon": ["C01", "C02", "C03", "C05", "C06", "C08", "C10", "C15", "C16", "C04"], "samplerz": ["C09", "C10", "C16", "C04"],
          "ffsampling": ["C10", "C04", "C03"], "math": ["C04", "C17", "C15", "C09"], "polynomial": ["C14", "C02", "C16", "C01", "C10", "C11"], "field": ["C12", "C17", "C11", "C02", "C04"], "fourier": ["C11", "C13", "C17", "C03", "C10"]}
for k in sorted(os.listdir(src)):
    for r in sorted(os.listdir(os.path.join(src, k))):
        D = os.path.join(src, k, r)
        cf = os.path.join(D, "confirm.json")
        if not os.path.exists(cf) or not json.load(open(cf)).get("confirmed"):
            continue
        out = os.path.join(V, "seeded", f"benign-{k}-{r}")
        os.makedirs(out, exist_ok=True)
        shutil.copy(os.path.join(D, "patch.diff"), out)
        readme = open(os.path.join(D, "README.md")).read() if os.path.exists(os.path.join(D, "README.md")) else ""
        shutil.copy(os.path.join(D, "README.md"), out) if readme else None
        title = re.sub(r"\s+", " ", readme.strip().splitlines()[0].lstrip("# ")) if readme.strip() else f"{k} {r}"
        mp = os.path.join(out, "meta.json")
        old = json.load(open(mp)) if os.path.exists(mp) else {}
        json.dump({"id": f"benign-{k}-{r}", "benign": True, "breaks_property": None, "title": title[:160],
                   "origin": "behaviour-preserving refactor written by a fresh sub-agent that saw only its source file(s) and its own scratch worktree; re-confirmed: applies to HEAD, full suite passes (61 + 2)",
                   "needs_to_manifest": "n/a (no property is broken)", "expect": EXPECT.get(k, []), "caught_by": [], "false_alarms": old.get("false_alarms", []), "silent": old.get("silent", [])}, open(mp, "w"), indent=1)
        print("imported", k, r)
