#!/usr/bin/env python3
"""tools/try_patch.py <patch.diff> <ID>... : apply a seeded change to /repo, run the checks, always undo it."""
import subprocess, sys, os, signal
signal.signal(signal.SIGPIPE, signal.SIG_IGN)
patch = os.path.abspath(sys.argv[1])
ids = sys.argv[2:]
tier = os.environ.get("TIER", "quick")
if subprocess.run(["git", "-C", "/repo", "diff", "--quiet"]).returncode != 0:
    sys.exit("/repo has uncommitted changes")
if subprocess.run(["git", "-C", "/repo", "apply", patch]).returncode != 0:
    sys.exit("patch does not apply")
res = {}
try:
    for i in ids:
        p = subprocess.run(["/verif/check", i, "--tier", tier], stdout=subprocess.PIPE, stderr=subprocess.STDOUT, text=True)
        lines = [l for l in p.stdout.splitlines() if not l.startswith("[facts]")]
        res[i] = p.returncode
        try:
            print(f"=== {i} on {patch}: exit={p.returncode}")
            for l in lines[: int(os.environ.get("LINES_MAX", "8"))]:
                print("   ", l[:400])
        except BrokenPipeError:
            pass
finally:
    subprocess.run(["git", "-C", "/repo", "checkout", "--", "."])
