#!/usr/bin/env python3
"""print the catch matrix (markdown) from seeded/*/meta.json"""
import json, os
V = os.path.join(os.path.dirname(os.path.dirname(os.path.abspath(__file__))), "seeded")
print("| change | what it is | needs | reported by (check: rules) | silent |")
print("|---|---|---|---|---|")
for sid in sorted(os.listdir(V)):
    mp = os.path.join(V, sid, "meta.json")
    if not os.path.exists(mp):
        continue
    m = json.load(open(mp))
    title = m.get("title") or m.get("origin", "")
    title = title.split("—", 1)[-1].strip() if "—" in title else title
    needs = (m.get("needs_to_manifest") or "")[:110].replace("|", "/").replace("\n", " ")
    cd = m.get("caught_detail", [])
    if m.get("benign"):
        fa = m.get("false_alarms") or []
        rep = "(benign) " + ("all silent" if not fa else "FALSE ALARM: " + "; ".join(c["check"] for c in fa))
        print(f"| {sid} | {title[:90].replace('|', '/')} | — | {rep} | {', '.join(m.get('silent', [])) or ''} |")
        continue
    rep = "; ".join(f"**{c['check']}**: {', '.join(r.replace(c['check'] + '-', '') for r in c['rules'][:4])}" for c in cd) or "— (missed)"
    print(f"| {sid} | {title[:90].replace('|', '/')} | {needs} | {rep} | {', '.join(m.get('silent', [])) or ''} |")
