"""C13 — floating-point FFT layer (decided clauses).

 (1) every entry of the complex twiddle table (CTFE constant) is within 2^-49 of e^{i*pi*bitrev10(i)/1024}
     (recomputed with mpmath at 50 digits);
 (2) wiring, for every supported length: fft passes the table; ifft passes, element for element, the
     conjugates of the first n table entries and 1/n; split uses the conjugated table, merge the table itself.
Not decided: the 2^-30 accuracy bound for all inputs (a rounding-error analysis; its only repository-specific
premise is (1)), and that the generic butterflies compute the transform."""
import struct

from fv.absint import St, Pt, Ag, I, Sq, En, Md, Fl
from fv.oracle import bitrev
from .common import Session, CF
from . import c03

LEVEL = "other"
TECHNIQUE = "CTFE table accuracy against mpmath; abstract interpretation of the complex transform entry points (table identity, conjugation closure, 1/n)"
EXPLANATION = ("The 1024 complex twiddles are read from the compiler-evaluated constant and compared with 50-digit values; the arguments reaching the generic "
               "butterflies are observed in abstract runs for n = 2..1024. The numerical error bound itself is a paper argument, not decided by tool.")
CPLX = "num::Complex<f64>"
IMPL = "<falcon_rust::polynomial::Polynomial<num::Complex<f64>> as falcon_rust::fast_fft::FastFft>"


def table_of(S, ptr):
    if type(ptr) is not Pt or ptr.key is None or ptr.key[0] != "alloc":
        return None
    b = S.prog.alloc_bytes(ptr.key[1])
    if b is None:
        return None
    v = struct.unpack("<%dd" % (len(b) // 8), b)
    return [(v[2 * i], v[2 * i + 1]) for i in range(len(v) // 2)]


def run(R):
    import mpmath as mp
    mp.mp.dps = 50
    S = Session()
    ctx, prog = S.ctx, S.prog
    c03.setup(S, R.tier, R)
    ctx.hooks["exact_collect_max"] = 1100
    R.trust("rustc CTFE + MIR (nightly)", "E0 fact extractor", "E2 abstract interpreter", "mpmath (50 digits)")
    calls = []

    def obs(ev, **kw):
        if ev == "enter" and not ctx.quiet and kw["callee"].name.startswith(f"<{CPLX} as {CF}>::"):
            calls.append((kw["callee"].name.split("::")[-1], kw["args"], kw["st"].copy()))
    ctx.observers.append(obs)
    ctx.no_inline = lambda inst: inst.name.startswith(f"<{CPLX} as {CF}>::")

    def poly(st, n, tag):
        c = Ag((Fl(-1e9, 1e9, False, tag + ".re"), Fl(-1e9, 1e9, False, tag + ".im")))
        return S.cell(st, tag, Ag((S.seq(st, c, n),)), mut=True)
    tables = {}
    lens = [1 << k for k in range(1, 11)]
    for entry, callee, argi in (("fft_inplace", "fft", 1), ("merge_fft", "merge_fft", 2)):
        inst = S.find(f"{IMPL}::{entry}")
        for n in lens:
            st = St()
            del calls[:]
            args = [poly(st, n // 2 if entry == "merge_fft" else n, "a")] + ([poly(st, n // 2, "b")] if entry == "merge_fft" else [])
            S.run(inst, args, st)
            got = [c for c in calls if c[0] == callee]
            t = table_of(S, got[0][1][argi]) if len(got) == 1 else None
            if t is None:
                R.violation("C13-wiring", f"{entry} n={n}", f"expected one call to the generic {callee} with the constant table, saw {len(got)}", key=f"{entry}|{n}")
            else:
                tables[tuple(t)] = True
                R.ok("C13-wiring", f"{entry} n={n}", f"passes the constant table ({len(t)} entries)", key=f"{entry}|{n}")
    if len(tables) != 1:
        R.violation("C13-table", "tables", f"{len(tables)} distinct forward tables reach the butterflies", key="ntables")
        return
    (tab,) = tables
    R.check(len(tab) == 1024, "C13-table", "table", "1024 entries", key="len")
    worst = mp.mpf(0)
    wi = -1
    for i, (re, im) in enumerate(tab):
        ang = mp.pi * bitrev(i, 10) / 1024
        e = max(abs(mp.mpf(re) - mp.cos(ang)), abs(mp.mpf(im) - mp.sin(ang)))
        if e > worst:
            worst, wi = e, i
    tol = mp.mpf(2) ** -49
    R.check(worst <= tol, "C13-table", "COMPLEX twiddle table", f"all 1024 entries within 2^-49 of exp(i*pi*bitrev(i)/1024); worst error {mp.nstr(worst, 3)} at index {wi}",
            f"entry {wi} = {tab[wi]} is off by {mp.nstr(worst, 5)} (tolerance 2^-49 = {mp.nstr(tol, 3)})", key="accuracy", data={"index": wi, "value": tab[wi]})
    R.floor("complex table entries checked", len(tab), 1024)
    # ifft / split: conjugated prefix and 1/n
    for entry, callee in (("ifft_inplace", "ifft"), ("split_fft", "split_fft")):
        inst = S.find(f"{IMPL}::{entry}")
        for n in lens:
            st = St()
            del calls[:]
            S.run(inst, [poly(st, n, "a")], st)
            got = [c for c in calls if c[0] == callee]
            site = f"{entry} n={n}"
            if len(got) != 1:
                R.violation("C13-wiring", site, f"expected one call to the generic {callee}, saw {len(got)}", key=f"{entry}|{n}")
                continue
            _, args, stt = got[0]
            tv = args[1]
            try:
                seq = S.E.load(stt, tv.key, tv.proj)
                while type(seq) is Pt:
                    seq = S.E.load(stt, seq.key, seq.proj)
            except Exception:
                seq = None
            ok = type(seq) is Sq and stt.const(seq.len) == n
            why = f"table argument has length {stt.itv[seq.len.vid] if type(seq) is Sq else '?'}"
            if ok and n <= 64 and seq.head and len(seq.head) == n:
                bad = []
                for i in range(n):
                    h = seq.head[i]
                    re, im = h.f
                    if not (re.lo == re.hi == tab[i][0] and im.lo == im.hi == -tab[i][1]):
                        bad.append(i)
                ok = not bad
                why = f"entries {bad[:4]} are not the conjugates of the table entries"
            elif ok:
                re, im = seq.elem.f
                lo_re, hi_re = min(t[0] for t in tab[:n]), max(t[0] for t in tab[:n])
                lo_im, hi_im = min(-t[1] for t in tab[:n]), max(-t[1] for t in tab[:n])
                ok = (re.lo, re.hi) == (lo_re, hi_re) and (im.lo, im.hi) == (lo_im, hi_im)
                why = f"element hull re {(re.lo, re.hi)} im {(im.lo, im.hi)} differs from the hull of the conjugated first {n} entries"
            R.check(ok, "C13-wiring", site, f"passes the conjugates of the first {n} table entries", why, key=f"{entry}|{n}")
            if callee == "ifft":
                ninv = args[2]
                okn = type(ninv) is Ag and ninv.f[0].lo == ninv.f[0].hi == 1.0 / n and ninv.f[1].lo == ninv.f[1].hi == 0.0
                R.check(okn, "C13-wiring", site + " (1/n)", f"scales by 1/{n}", f"scaling constant is {ninv}", key=f"ninv|{n}")
    ctx.observers.remove(obs)
    R.analysed["unsupported"] = S.unsupported[:10]
    R.floor("lengths analysed", len(lens), 10)
