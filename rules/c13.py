"""C13 — floating-point FFT layer (decided clauses).

 (1) every entry of the complex twiddle table (CTFE constant) is within 2^-49 of e^{i*pi*bitrev10(i)/1024}
     (recomputed with mpmath at 50 digits);
 (2) wiring, for every supported length: fft passes the table; ifft passes, element for element, the
     conjugates of the first n table entries and 1/n; split uses the conjugated table, merge the table itself.
 (3) algebra in exact arithmetic (added while building): fft / ifft / split_fft / merge_fft are interpreted on vectors
     of n symbolic complex numbers; every output element's expression tree (over the inputs and the table's
     constants) is compared by identity testing with the definition: fft(a)[i] = a(r_i), r_i^n = -1, r_i pairwise
     distinct; ifft(fft(a)) = a; ifft(fft(a) .* fft(b)) = a*b mod (X^n+1) (small n); merge(split(F)) = F;
     split(fft(a)) = (fft(a_even), fft(a_odd)). Tolerance 1e-9 relative: this is the algebra, NOT the error bound.
     quick: n = 2 .. 128; thorough: n = 2 .. 1024.
Not decided: the 2^-30 accuracy bound for all inputs (a rounding-error analysis; its repository-specific premises
are (1) and (3))."""
import struct

from fv.absint import St, Pt, Ag, I, Sq, En, Md, Fl
from fv.oracle import bitrev
from .common import Session, CF
from . import c03

LEVEL = "other"
TECHNIQUE = "CTFE table accuracy against mpmath; abstract interpretation of the complex transform entry points (table identity, conjugation closure, 1/n)"
EXPLANATION = ("The 1024 complex twiddles are read from the compiler-evaluated constant and compared with 50-digit values; the arguments reaching the generic "
               "butterflies are observed in abstract runs for n = 2..1024. The numerical error bound itself is a paper argument, not decided by tool.")
CPLX = "num::Complex<f64>"
IMPL = "<falcon_rust::polynomial::Polynomial<num::Complex<f64>> as falcon_rust::fast_fft::FastFft>"


def table_of(S, ptr):
    if type(ptr) is not Pt or ptr.key is None or ptr.key[0] != "alloc":
        return None
    b = S.prog.alloc_bytes(ptr.key[1])
    if b is None:
        return None
    v = struct.unpack("<%dd" % (len(b) // 8), b)
    return [(v[2 * i], v[2 * i + 1]) for i in range(len(v) // 2)]


def run(R):
    import mpmath as mp
    mp.mp.dps = 50
    S = Session()
    ctx, prog = S.ctx, S.prog
    c03.setup(S, R.tier, R)
    ctx.hooks["exact_collect_max"] = 1100
    ctx.hooks["keep_heads_max"] = 1100
    # the entry points build their tables with loops as well as with iterator chains: follow them exactly (lengths are constants)
    ctx.path_mode_fns = lambda inst: "CyclotomicFourier" in inst.name or "FastFft" in inst.name
    R.trust("rustc CTFE + MIR (nightly)", "E0 fact extractor", "E2 abstract interpreter", "mpmath (50 digits)")
    calls = []

    def obs(ev, **kw):
        if ev == "enter" and not ctx.quiet and kw["callee"].name.startswith(f"<{CPLX} as {CF}>::"):
            calls.append((kw["callee"].name.split("::")[-1], kw["args"], kw["st"].copy()))
    ctx.observers.append(obs)
    ctx.no_inline = lambda inst: inst.name.startswith(f"<{CPLX} as {CF}>::")

    def poly(st, n, tag):
        c = Ag((Fl(-1e9, 1e9, False, tag + ".re"), Fl(-1e9, 1e9, False, tag + ".im")))
        return S.cell(st, tag, Ag((S.seq(st, c, n),)), mut=True)
    tables = {}
    lens = [1 << k for k in range(1, 11)]
    for entry, callee, argi in (("fft_inplace", "fft", 1), ("merge_fft", "merge_fft", 2)):
        inst = S.find(f"{IMPL}::{entry}")
        for n in lens:
            st = St()
            del calls[:]
            args = [poly(st, n // 2 if entry == "merge_fft" else n, "a")] + ([poly(st, n // 2, "b")] if entry == "merge_fft" else [])
            S.run(inst, args, st)
            got = [c for c in calls if c[0] == callee]
            t = table_of(S, got[0][1][argi]) if len(got) == 1 else None
            if t is None:
                R.violation("C13-wiring", f"{entry} n={n}", f"expected one call to the generic {callee} with the constant table, saw {len(got)}", key=f"{entry}|{n}")
            else:
                tables[tuple(t)] = True
                R.ok("C13-wiring", f"{entry} n={n}", f"passes the constant table ({len(t)} entries)", key=f"{entry}|{n}")
    if len(tables) != 1:
        R.violation("C13-table", "tables", f"{len(tables)} distinct forward tables reach the butterflies", key="ntables")
        return
    (tab,) = tables
    R.check(len(tab) == 1024, "C13-table", "table", "1024 entries", key="len")
    worst = mp.mpf(0)
    wi = -1
    for i, (re, im) in enumerate(tab):
        ang = mp.pi * bitrev(i, 10) / 1024
        e = max(abs(mp.mpf(re) - mp.cos(ang)), abs(mp.mpf(im) - mp.sin(ang)))
        if e > worst:
            worst, wi = e, i
    tol = mp.mpf(2) ** -49
    R.check(worst <= tol, "C13-table", "COMPLEX twiddle table", f"all 1024 entries within 2^-49 of exp(i*pi*bitrev(i)/1024); worst error {mp.nstr(worst, 3)} at index {wi}",
            f"entry {wi} = {tab[wi]} is off by {mp.nstr(worst, 5)} (tolerance 2^-49 = {mp.nstr(tol, 3)})", key="accuracy", data={"index": wi, "value": tab[wi]})
    R.floor("complex table entries checked", len(tab), 1024)
    # ifft / split: conjugated prefix and 1/n
    for entry, callee in (("ifft_inplace", "ifft"), ("split_fft", "split_fft")):
        inst = S.find(f"{IMPL}::{entry}")
        for n in lens:
            st = St()
            del calls[:]
            S.run(inst, [poly(st, n, "a")], st)
            got = [c for c in calls if c[0] == callee]
            site = f"{entry} n={n}"
            if len(got) != 1:
                R.violation("C13-wiring", site, f"expected one call to the generic {callee}, saw {len(got)}", key=f"{entry}|{n}")
                continue
            _, args, stt = got[0]
            tv = args[1]
            try:
                seq = S.E.load(stt, tv.key, tv.proj)
                while type(seq) is Pt:
                    seq = S.E.load(stt, seq.key, seq.proj)
            except Exception:
                seq = None
            ok = type(seq) is Sq and stt.const(seq.len) == n
            why = f"table argument has length {stt.itv[seq.len.vid] if type(seq) is Sq else '?'}"
            if ok and n <= 64 and seq.head and len(seq.head) == n:
                bad = []
                for i in range(n):
                    h = seq.head[i]
                    re, im = h.f
                    if not (re.lo == re.hi == tab[i][0] and im.lo == im.hi == -tab[i][1]):
                        bad.append(i)
                ok = not bad
                why = f"entries {bad[:4]} are not the conjugates of the table entries"
            elif ok:
                re, im = seq.elem.f
                lo_re, hi_re = min(t[0] for t in tab[:n]), max(t[0] for t in tab[:n])
                lo_im, hi_im = min(-t[1] for t in tab[:n]), max(-t[1] for t in tab[:n])
                ok = (re.lo, re.hi) == (lo_re, hi_re) and (im.lo, im.hi) == (lo_im, hi_im)
                why = f"element hull re {(re.lo, re.hi)} im {(im.lo, im.hi)} differs from the hull of the conjugated first {n} entries"
            R.check(ok, "C13-wiring", site, f"passes the conjugates of the first {n} table entries", why, key=f"{entry}|{n}")
            if callee == "ifft":
                ninv = args[2]
                okn = type(ninv) is Ag and ninv.f[0].lo == ninv.f[0].hi == 1.0 / n and ninv.f[1].lo == ninv.f[1].hi == 0.0
                R.check(okn, "C13-wiring", site + " (1/n)", f"scales by 1/{n}", f"scaling constant is {ninv}", key=f"ninv|{n}")
    ctx.observers.remove(obs)
    R.analysed["unsupported"] = S.unsupported[:10]
    R.floor("lengths analysed", len(lens), 10)
    clause_algebra(R)


def clause_algebra(R):
    import time, random
    from . import symalg
    from .symalg import poly, coeff_tags, cev, NotSymbolic
    quick = R.tier != "thorough"
    lengths = [1 << k for k in range(1, 11) if (1 << k) <= (256 if quick else 1024)]
    prod_max = 16 if quick else 64
    split_max = 64 if quick else 256
    S = Session()
    ctx = S.ctx
    ctx.path_mode_fns = lambda inst: True
    ctx.path_budget = 400000000
    ctx.hooks["may_panic"] = lambda inst: False
    ctx.hooks["inline"] = lambda c: "num::Complex" in c.name
    ctx.hooks["exact_collect_max"] = 1100
    ctx.hooks["keep_heads_max"] = 1100
    fft, ifft = S.find(f"{IMPL}::fft"), S.find(f"{IMPL}::ifft")
    split, merge = S.find(f"{IMPL}::split_fft"), S.find(f"{IMPL}::merge_fft")
    hmul = S.find(f"polynomial::Polynomial::<{CPLX}>::hadamard_mul")
    TOL = 1e-9

    def evalall(tags, vals, stt=None):
        memo = {}

        def env(leaf):
            if isinstance(leaf, tuple):        # an integer converted to f64 (e.g. the length): must be a constant
                lo, hi = stt.itv.get(leaf[1], (None, None)) if stt is not None else (None, None)
                return float(lo) if lo is not None and lo == hi else None
            return vals.get(leaf, 0.0)
        return [cev(t, env, memo) for t in tags]

    def rand_vec(rnd, nm, n, real=False):
        vals, v = {}, []
        for j in range(n):
            z = complex(rnd.uniform(-1, 1), 0.0 if real else rnd.uniform(-1, 1))
            v.append(z)
            vals[f"{nm}[{j}].re"], vals[f"{nm}[{j}].im"] = z.real, z.imag
        return vals, v
    times = {}
    for n in lengths:
        t0 = time.time()
        rnd = random.Random(n)
        st = St()
        a = S.cell(st, "a", poly(S, st, "a", n))
        outs = S.run(fft, [a], st)
        site = f"complex fft, n = {n}"
        try:
            if len(outs) != 1:
                raise NotSymbolic(f"{len(outs)} outcomes")
            fa, s2 = outs[0]
            tg = coeff_tags(fa)
            if len(tg) != n:
                raise NotSymbolic(f"{len(tg)} outputs")
            e0 = evalall(tg, {"a[0].re": 1.0}, s2)
            e1 = evalall(tg, {"a[1].re": 1.0}, s2)
            ok = all(abs(x - 1) < TOL for x in e0)
            roots = e1
            ok = ok and all(abs(r ** n + 1) < 1e-7 for r in roots) and len({(round(r.real, 7), round(r.imag, 7)) for r in roots}) == n
            worst = 0.0
            for t in range(3):
                vals, av = rand_vec(rnd, "a", n)
                out = evalall(tg, vals, s2)
                for i in range(n):
                    acc, p = 0j, 1 + 0j
                    for j in range(n):
                        acc += av[j] * p
                        p *= roots[i]
                    worst = max(worst, abs(out[i] - acc) / (1 + abs(acc)))
            ok = ok and worst < TOL
            R.check(ok, "C13-algebra", site, f"output i = a(r_i) with r_i^{n} = -1, roots pairwise distinct (identity test, max deviation {worst:.1e})", f"not the evaluation at the roots of X^{n}+1 (deviation {worst:.2e})", key=f"alg|fft|{n}")
            # inverse
            S.cell(s2, "fa", fa)
            o2 = S.run(ifft, [Pt(("h", "fa"))], s2)
            okb = len(o2) == 1
            if okb:
                tb = coeff_tags(o2[0][0])
                w2 = 0.0
                for t in range(3):
                    vals, av = rand_vec(rnd, "a", n)
                    out = evalall(tb, vals, o2[0][1])
                    w2 = max(w2, max(abs(out[j] - av[j]) for j in range(n)))
                okb = len(tb) == n and w2 < TOL
            R.check(okb, "C13-algebra", f"complex ifft(fft(a)), n = {n}", "equals a (identity test)", "the composition is not the identity", key=f"alg|inv|{n}")
            if n <= prod_max:
                s3 = o2[0][1] if okb else s2
                b = S.cell(s3, "b", poly(S, s3, "b", n))
                o3 = S.run(fft, [b], s3)
                fbv, s4 = o3[0]
                S.cell(s4, "fb", fbv)
                o4 = S.run(hmul, [Pt(("h", "fa")), Pt(("h", "fb"))], s4)
                pr, s5 = o4[0]
                S.cell(s5, "pr", pr)
                o5 = S.run(ifft, [Pt(("h", "pr"))], s5)
                tp = coeff_tags(o5[0][0])
                w3 = 0.0
                for t in range(3):
                    va, av = rand_vec(rnd, "a", n, real=True)
                    vb, bv = rand_vec(rnd, "b", n, real=True)
                    out = evalall(tp, dict(va, **vb), o5[0][1])
                    for k in range(n):
                        want = sum((av[i] * bv[j]) * (1 if i + j < n else -1) for i in range(n) for j in range(n) if (i + j) % n == k)
                        w3 = max(w3, abs(out[k] - want))
                R.check(w3 < TOL, "C13-algebra", f"complex ifft(fft(a) .* fft(b)), n = {n}", "equals the negacyclic product (identity test)", f"deviation {w3:.2e}", key=f"alg|prod|{n}")
            if n <= split_max:
                # merge(split(F)) = F on a symbolic F
                st2 = St()
                F = S.cell(st2, "F", poly(S, st2, "F", n))
                os_ = S.run(split, [F], st2)
                (f0f1, s6), = os_
                S.cell(s6, "f0", f0f1.f[0])
                S.cell(s6, "f1", f0f1.f[1])
                om = S.run(merge, [Pt(("h", "f0")), Pt(("h", "f1"))], s6)
                tm = coeff_tags(om[0][0])
                w4 = 0.0
                for t in range(3):
                    vals, Fv = rand_vec(rnd, "F", n)
                    out = evalall(tm, vals, om[0][1])
                    w4 = max(w4, max(abs(out[j] - Fv[j]) for j in range(n)))
                R.check(len(tm) == n and w4 < TOL, "C13-algebra", f"merge_fft(split_fft(F)), n = {n}", "equals F (identity test)", f"deviation {w4:.2e}", key=f"alg|merge|{n}")
                # split(fft(a)) = (fft(a_even), fft(a_odd))
                if n >= 4:
                    S.cell(s2, "fa2", fa)
                    osp = S.run(split, [Pt(("h", "fa2"))], s2)
                    (sp, s7), = osp
                    t0s, t1s = coeff_tags(sp.f[0]), coeff_tags(sp.f[1])
                    st3 = St()
                    h = S.cell(st3, "h", poly(S, st3, "h", n // 2))
                    (fh, s8), = S.run(fft, [h], st3)
                    th = coeff_tags(fh)
                    w5 = 0.0
                    for t in range(3):
                        vals, av = rand_vec(rnd, "a", n)
                        o0, o1 = evalall(t0s, vals, s7), evalall(t1s, vals, s7)
                        for par, oo in ((0, o0), (1, o1)):
                            hv = {}
                            for j in range(n // 2):
                                hv[f"h[{j}].re"], hv[f"h[{j}].im"] = av[2 * j + par].real, av[2 * j + par].imag
                            ref = evalall(th, hv, s8)
                            w5 = max(w5, max(abs(oo[i] - ref[i]) for i in range(n // 2)))
                    R.check(w5 < TOL, "C13-algebra", f"split_fft(fft(a)), n = {n}", "equals (fft(a_even), fft(a_odd)) (identity test)", f"deviation {w5:.2e}", key=f"alg|split|{n}")
        except (NotSymbolic, ValueError, IndexError, ZeroDivisionError) as e:
            R.violation("C13-algebra", site, f"no symbolic form: {e}", key=f"alg|sym|{n}")
        times[n] = round(time.time() - t0, 2)
    R.analysed["algebra_lengths"] = lengths
    R.analysed["algebra_seconds"] = times
    R.analysed.setdefault("unsupported", []).extend(S.unsupported[:5])
    R.floor("lengths with transform algebra", len(times), len(lengths))
