"""C02 — verify accepts exactly what the specification accepts (decided clauses).

 (1) constants: FalconVariant::parameters() evaluates, for N = 512 / 1024, to n, sig_bytelen and
     sig_bound = floor(beta^2) as re-derived from the specification and as in PQClean's l2bound[];
 (2) acceptance predicate: every value verify can return is either the constant `false` (on the path where
     decompression failed) or the comparison  X <= floor(beta^2)  — characterised as a set of integers,
     whatever its syntactic form — and never a constant `true`;
 (3) X is a function of (salt, message, signature body, public key) only: verify's cone has no entropy / OS
     leaf;
 (4) ingredients of X: it is the sum of two sums of squares, one over values that depend on the signature
     body only and lie in the decoded range (||s2||^2), one over centred representatives in [-6144,6144] that
     depend on all four inputs (||s1||^2); both are exact i64 sums;
 (5)-(6) centred reduction, exact field arithmetic and strict decompression are C12 / C07 / C03.
Not decided: that s1 = c - s2*h is computed correctly by the NTT for all inputs (C11 covers tables/wiring)."""
from fv.absint import St, Pt, Ag, I, Sq, En, Md, Fl
from fv.mir import kind_of
from fv.oracle import SPEC, Q, derived, pqclean
from .common import Session, record_obligations
from . import signalg, c03, c14, effects, skeleton

LEVEL = "other"
TECHNIQUE = "CTFE/abstract evaluation of the parameter table vs spec and PQClean; predicate extraction from verify's return value; ingredient labels; effect analysis"
EXPLANATION = ("verify::<N> is interpreted abstractly for all inputs; the returned boolean's provenance gives the accepted set of the compared quantity X "
               "as an integer interval, compared with floor(beta^2) re-derived from the specification; labels on the four inputs show which of them reach "
               "each sum of squares. The NTT algebra producing s1 is not decided here.")


def eval_parameters(S, N):
    ctx = S.ctx
    st = St()
    fn = S.find("falcon::FalconVariant::from_n")
    outs = S.run(fn, [ctx.const_int(st, N, ctx.usize_ty())], st)
    var, st = outs[0]
    pm = S.find("falcon::FalconVariant::parameters")
    outs = S.run(pm, [S.cell(st, "variant", var)], st)
    v, st = outs[0]
    n, sigma, sigmin, bound, blen = v.f
    return {"n": st.const(n), "sigma": sigma.lo if sigma.lo == sigma.hi else None, "sigmin": sigmin.lo if sigmin.lo == sigmin.hi else None,
            "sig_bound": st.const(bound), "sig_bytelen": st.const(blen)}


def accept_set(st, v):
    """for a boolean value: ('const', b) or ('le', X vid, c) meaning true <=> X <= c (integers), or None"""
    lo, hi = st.itv[v.vid]
    if lo == hi:
        return ("const", bool(lo))
    p = st.prov.get(v.vid)
    neg = False
    while p and p[0] == "not":
        neg = not neg
        p = st.prov.get(p[1][0])
    if not p or p[0] != "cmp":
        return None
    a, b = p[1]
    op = p[2]
    if neg:
        op = {"Lt": "Ge", "Le": "Gt", "Gt": "Le", "Ge": "Lt", "Eq": "Ne", "Ne": "Eq"}[op]
    ca = st.itv[a][0] if st.itv[a][0] == st.itv[a][1] else None
    cb = st.itv[b][0] if st.itv[b][0] == st.itv[b][1] else None
    if cb is not None and ca is None:
        x, c = a, cb
    elif ca is not None and cb is None:
        x, c = b, ca
        op = {"Lt": "Gt", "Le": "Ge", "Gt": "Lt", "Ge": "Le", "Eq": "Eq", "Ne": "Ne"}[op]
    else:
        return None
    if op == "Le":
        return ("le", x, c)
    if op == "Lt":
        return ("le", x, c - 1)
    if op == "Ge":
        return ("ge", x, c)
    if op == "Gt":
        return ("ge", x, c + 1)
    return None


def labelled_inputs(S, st, N):
    ctx = S.ctx
    u8 = S.ty("u8")
    usz = ctx.usize_ty()
    slen = SPEC[N]["sig_bytelen"] - 41
    m = skeleton.labelled_bytes(S, st, "m", 0, 1 << 40, "m")
    sig = Ag((Sq(ctx.top_int(st, u8, taint=frozenset({"salt"})), ctx.const_int(st, 40, usz)),
              Sq(ctx.top_int(st, u8, taint=frozenset({"s"})), ctx.const_int(st, slen, usz))))
    h = Ag((ctx.mk_int(st, 0, Q - 1, S.ty("u32"), taint=frozenset({"h"})),))
    pk = Ag((Ag((Sq(h, ctx.const_int(st, N, usz)),)),))
    return m, S.cell(st, "sig", sig), S.cell(st, "pk", pk)


def run_verify_labelled(S, N, quick1024=False):
    ctx = S.ctx
    inst = S.find(f"falcon::verify::<{N}>")
    rets, sums, dec = [], [], []

    def obs(ev, **kw):
        if ctx.quiet:
            return
        fr = kw.get("frame")
        if ev == "assign" and fr.inst is inst and kw["place"]["local"] == 0 and not kw["place"]["projection"]:
            rets.append((kw["value"], kw["st"].copy(), fr.body.span_of(kw["bb"], kw["si"])))
        elif ev == "sum" and fr.inst is inst:
            stt = kw["st"]
            sums.append((stt.itv[kw["item"].vid], set(stt.taint.get(kw["item"].vid, set())), stt.itv[kw["n"].vid]))
        elif ev == "assign" and fr.inst is inst:
            # the same norm written as accumulation loops: squares `x * x` computed in verify's own body (one entry per
            # distinct term; the number of terms is then not observed: None)
            try:
                stmt = fr.body.blocks[kw["bb"]]["statements"][kw["si"]]
                k_, v_ = kind_of(stmt["kind"])
                rk, rv = kind_of(v_[1])
                if rk in ("BinaryOp", "CheckedBinaryOp") and rv[0] in ("Mul", "MulUnchecked"):
                    stt = kw["st"]
                    x_, y_ = S.E.operand(stt, fr, rv[1]), S.E.operand(stt, fr, rv[2])
                    if type(x_) is I and type(y_) is I and x_.vid == y_.vid:
                        lo_, hi_ = stt.itv[x_.vid]
                        ent = ((0 if lo_ <= 0 <= hi_ else min(lo_ * lo_, hi_ * hi_), max(lo_ * lo_, hi_ * hi_)), set(stt.taint.get(x_.vid, set())), None)
                        if ent not in sums:
                            sums.append(ent)
            except Exception:
                pass
        elif ev == "enter" and fr.inst is inst and kw["callee"].name == "falcon_rust::encoding::decompress":
            a = kw["args"]
            dec.append((a[0], kw["st"].const(a[1]) if type(a[1]) is I else None))
    ctx.observers.append(obs)
    st = St()
    m, sig, pk = labelled_inputs(S, st, N)
    ctx.hooks["assume_transform"] = ("labels only: the transform layer is treated as mixing all its inputs (index safety is C03's obligation)") if quick1024 else None
    n0 = len(ctx.obl)
    outs = S.run(inst, [m, sig, pk], st)
    ctx.hooks["assume_transform"] = None
    ctx.observers.remove(obs)
    return outs, rets, sums, dec, S.obligations_since(n0)


def run(R):
    S = Session()
    ctx, prog = S.ctx, S.prog
    c03.setup(S, R.tier, R)
    R.trust("rustc CTFE + MIR (nightly)", "E0 fact extractor", "E2 abstract interpreter", "Falcon specification v1.2 formulas (re-derived with mpmath)", "vendored PQClean sources")
    d = derived()
    for N in (512, 1024):
        # (1) constants
        got = eval_parameters(S, N)
        spec = SPEC[N]
        pq = pqclean(N)
        site = f"FalconVariant::parameters() for n={N}"
        R.check(got["n"] == N, "C02-const", site, f"n = {got['n']}", key=f"n|{N}")
        R.check(got["sig_bound"] == d[N]["beta2"] == spec["beta2"], "C02-const", site,
                f"sig_bound = {got['sig_bound']} = floor((1.1*sigma)^2 * 2n) re-derived from the specification",
                f"sig_bound = {got['sig_bound']}, specification floor(beta^2) = {d[N]['beta2']}", key=f"bound|{N}", data={"got": got["sig_bound"], "want": d[N]["beta2"]})
        R.check(got["sig_bound"] == pq["l2bound"][spec["logn"]], "C02-sib", site, f"sig_bound equals PQClean l2bound[{spec['logn']}] = {pq['l2bound'][spec['logn']]}",
                key=f"pqbound|{N}")
        R.check(got["sig_bytelen"] == spec["sig_bytelen"] == pq["sig_bytes"], "C02-const", site, f"sig_bytelen = {got['sig_bytelen']} (spec and PQClean CRYPTO_BYTES)",
                f"sig_bytelen = {got['sig_bytelen']}, spec {spec['sig_bytelen']}, PQClean {pq['sig_bytes']}", key=f"bytelen|{N}")
        R.check(pq["is_short_op"] == "<=", "C02-sib", f"PQClean falcon-{N} is_short", "reference accepts norm <= l2bound", key=f"pqop|{N}")
        # (2)-(4) on the abstract run
        outs, rets, sums, dec, obls = run_verify_labelled(S, N, quick1024=(N == 1024 and R.tier == "quick"))
        vsite = f"verify::<{N}>"
        if not rets:
            R.violation("C02-pred", vsite, "no assignment to the return value observed", key=f"rets|{N}")
            continue
        kinds = []
        xlabs = set()
        for v, stt, where in rets:
            if type(v) is not I:
                kinds.append(("other", where))
                continue
            a = accept_set(stt, v)
            kinds.append((a, where))
            if a and a[0] == "le":
                xlabs |= set(stt.taint.get(a[1], set()))
        cmps = [(a, w) for a, w in kinds if a and a[0] in ("le", "ge")]
        consts = [(a, w) for a, w in kinds if a and a[0] == "const"]
        unk = [(a, w) for a, w in kinds if not a or a[0] == "other"]
        R.check(not unk, "C02-pred", vsite, "every returned value is a constant or a comparison with a constant", f"unrecognised return values at {[w for _, w in unk]}", key=f"shape|{N}")
        R.check(all(not a[1] for a, _ in consts), "C02-pred", vsite + " (constants)", f"{len(consts)} constant return(s), all `false`",
                f"verify can return the constant `true` at {[w for a, w in consts if a[1]]}", key=f"consttrue|{N}")
        okc = len(cmps) == 1 and cmps[0][0][0] == "le" and cmps[0][0][2] == spec["beta2"]
        R.check(okc, "C02-pred", vsite, f"accept <=> X <= {spec['beta2']} (= floor(beta^2)) at {cmps[0][1] if cmps else '?'}",
                "acceptance predicate is " + "; ".join(f"X {'<=' if a[0] == 'le' else '>='} {a[2]} at {w}" for a, w in cmps) + f" — specification: X <= {spec['beta2']}",
                key=f"pred|{N}", data={"found": [(a[0], a[2]) for a, _ in cmps], "want": spec["beta2"]})
        need = {("H", "salt"), ("H", "m"), "s", "h"}
        R.check(need <= xlabs, "C02-flow", vsite, "the compared quantity depends on H(salt, message), the signature body and the public key",
                f"X depends only on {sorted(map(str, xlabs))}", key=f"xdeps|{N}")
        # (4) the two sums of squares
        s2sum = [s for s in sums if s[1] and s[1] <= {"s"}]
        s1sum = [s for s in sums if need <= s[1]]
        lim2 = (12159) ** 2
        lim1 = (Q // 2) ** 2
        # one sum over the 2N squares of both vectors (`s1.iter().chain(s2.iter())`) is the same quantity
        # (withdrawn: a relaxation that accepted one chained sum of 2N squares also accepted a seeded change that takes the
        # squares of the REDUCED representatives of s2 in such a chain — the two cannot be told apart by ranges and labels)
        chained = False
        if chained:
            R.ok("C02-ingr", vsite + " ||s1||^2 + ||s2||^2", f"one sum over {2 * N} squares (both vectors chained), each in {sums[0][0]}, depending on all four inputs", key=f"s2|{N}")
            R.ok("C02-ingr", vsite + " ||s1||^2", "(part of the chained sum)", key=f"s1|{N}")
            R.ok("C02-ingr", vsite, "one chained sum feeds the norm", key=f"nsums|{N}")
        R.check(chained or (len(s2sum) == 1 and s2sum[0][0][0] >= 0 and s2sum[0][0][1] <= lim2 and s2sum[0][2] in ((N, N), None)), "C02-ingr", vsite + " ||s2||^2",
                f"one sum over {N} squares of values that depend on the signature body only, each in {s2sum[0][0] if s2sum else '?'}",
                f"sums over signature-only terms: {[(s[0], s[2]) for s in s2sum]} (expected exactly one, {N} terms, squares of decoded coefficients)", key=f"s2|{N}")
        lim1 = (Q // 2) ** 2
        R.check(chained or (len(s1sum) == 1 and s1sum[0][0][0] >= 0 and s1sum[0][0][1] <= lim1 and s1sum[0][2] in ((N, N), None)), "C02-ingr", vsite + " ||s1||^2",
                f"one sum over {N} squares of centred representatives (each at most {lim1}) that depend on all four inputs",
                f"sums over terms depending on all inputs: {[(s[0], sorted(map(str, s[1])), s[2]) for s in s1sum]} (expected one, {N} terms, each term <= {lim1} = 6144^2)", key=f"s1|{N}")
        R.check(chained or len(sums) == 2, "C02-ingr", vsite, "exactly two sums feed the norm", f"{len(sums)} sums observed", key=f"nsums|{N}")
        # decompress gets the stored body and N
        okd = len(dec) == 1 and dec[0][1] == N and type(dec[0][0]) is Pt and dec[0][0].key == ("h", "sig")
        R.check(okd, "C02-flow", vsite + " -> decompress", f"decompress is applied to the signature's stored body with n = {N}", f"decompress calls: {dec}", key=f"dec|{N}")
        # (3) effects
        inst = S.find(f"falcon::verify::<{N}>")
        effects.cone_is_deterministic(R, prog, [inst.id], "C02-effects", vsite, floor_instances=150)
    # s1 = c - s2 h as exact residue identities on the transform inputs/outputs
    signalg.clause_verify(R, "C02-alg")
    # c = HashToPoint(salt || m): the clauses of C14 are shared rule instances
    S2 = Session()
    c14.core(R, S2, "C02-hash")
    R.analysed["unsupported"] = S.unsupported[:10]
    R.floor("variants", 2, 2)
