"""C17 — Babai size reduction (decided: the modular layer the 32-bit implementation stands on).

The statement itself — reduce_i32 = reduce_bigint, f G - g F unchanged, idempotence, for coefficients below
2^24 — is about run-time magnitudes (wrap-around of the 30-bit prime, rounding of a float quotient) and is NOT
decided. What is decided is the part of it that is visible in the code and is a genuine necessary condition:
`babai_reduce_i32` subtracts  balanced(intt(ntt(k) .* ntt(f)))  and  balanced(intt(ntt(k) .* ntt(g)))  with the
arithmetic of the 30-bit prime field; those are k*f and k*g (mod p) only if

 1 field     U32Field::new / add / sub / neg / mul / multiply / balanced_value are exact modulo
             p = 1073754113 for EVERY argument (result canonical, residue class = the operation on the classes;
             new for every |x| < p; balanced_value in [-(p-1)/2, (p-1)/2], class preserved)
 2 transform the U32Field transform entry points compute, for ALL inputs and every supported length:
             fft(a)[i] = a(r_i), r_i^n = -1, r_i pairwise distinct;  ifft(fft(a)) = a;  and for the small
             lengths directly  ifft(fft(a) .* fft(b)) = a*b mod (X^n + 1, p)    (exact residue identities, as C11)
 4 totality  (one clause only) the integer logarithm in babai_reduce_i32's bit-size helper never sees 0 — the big-integer
             sibling accepts all-zero (F, G), so a panic there would be a disagreement inside the property's domain
 3 wiring    in babai_reduce_i32 the two products use the SAME k (one transform of the rounded quotient) with the
             transforms of the function's own f resp. g, the results are centred with balanced_value and
             subtracted from F resp. G — by labels

Not decided: that |k*f| stays below p/2 (no wrap), the float quotient, loop exits, the big-integer sibling."""
import time

from fv import absint
from fv.absint import St, Pt, Ag, I, Sq, En, Md, Fl, iter_ints, p_sym, p_add, p_mul, p_const
from fv.models import ret1
from .common import Session, record_obligations
from . import symalg

LEVEL = "other"
TECHNIQUE = "abstract interpretation with residue classes modulo the 30-bit prime: field operations for all arguments; exact symbolic transform algebra for every supported length; label flow in babai_reduce_i32"
EXPLANATION = ("Only the modular layer under babai_reduce_i32 is decided (field operations exact for all arguments, transforms exact for all inputs and lengths, "
               "the products taken with one k and the function's own f, g). The property's statement about magnitudes, rounding and agreement with the big-integer "
               "implementation is NOT decided.")
P = 1073754113
U32F = "falcon_rust::u32_field::U32Field"
POLY = f"falcon_rust::polynomial::Polynomial<{U32F}>"
FFT_IMPL = f"<{POLY} as falcon_rust::fast_fft::FastFft>"


def fmt(p):
    if p is None:
        return "unknown"
    if not p:
        return "0"
    return " + ".join((f"{c}*" if c != 1 or not m else "") + "*".join(f"{s}^{e}" if e != 1 else s for s, e in m) for m, c in sorted(p.items())) or "0"


def clause_field(R):
    S = Session()
    ctx = S.ctx
    u32, i32 = S.ty("u32"), S.ty("i32")
    ctx.res_syms = {}

    def sym(st, name, lo=0, hi=P - 1):
        v = ctx.mk_int(st, lo, hi, u32)
        st.res[v.vid] = p_sym(name)
        ctx.res_syms[name] = v.vid
        return Ag((v,))

    def check(name, mkargs, want_rng, want_poly, label=None):
        inst = S.find(name)
        st = St()
        st.res[("dummy",)] = {}
        st.itv[("dummy",)] = (0, 0)
        args = mkargs(st)
        n0 = len(ctx.obl)
        outs = S.run(inst, args, st)
        site = label or inst.name
        record_obligations(R, "C17-asserts", S.obligations_since(n0), site_prefix="")
        if not outs:
            R.violation("C17-field", site, "no return", key=f"ret|{site}")
            return
        ret, rst = outs[0]
        ints = [i for _, i in iter_ints(ret)]
        if len(ints) != 1:
            R.violation("C17-field", site, f"unexpected return shape {ret}", key=f"shape|{site}")
            return
        v = ints[0]
        lo, hi = rst.itv[v.vid]
        R.check(want_rng[0] <= lo and hi <= want_rng[1], "C17-field", site + " (range)", f"result in [{lo},{hi}] within [{want_rng[0]},{want_rng[1]}]", key=f"range|{site}")
        got = rst.res.get(v.vid)
        R.check(got == want_poly, "C17-field", site + " (class)", f"residue class of the result is {fmt(got)}", f"residue class of the result is {fmt(got)}, expected {fmt(want_poly)}", key=f"class|{site}")
    A, B = p_sym("a"), p_sym("b")

    def mk_new(st):
        # the property's domain is |x| < 2^24; decided here for every |x| < p.  (Outside it, new(-p) = U32Field(p) is not
        # canonical and new(i32::MIN) overflows — the same slip D5 repaired in Felt::new; noted in DESIGN.md, not in C17's domain.)
        v = ctx.mk_int(st, -(P - 1), P - 1, i32)
        st.res[v.vid] = p_sym("a")
        ctx.res_syms["a"] = v.vid
        return [v]
    check("u32_field::U32Field::new", mk_new, (0, P - 1), A, label="U32Field::new (every |x| < p)")
    ref = lambda st, name: S.cell(st, "self_" + name, sym(st, name))
    check("u32_field::U32Field::value", lambda st: [ref(st, "a")], (0, P - 1), A)
    check("u32_field::U32Field::balanced_value", lambda st: [ref(st, "a")], (-(P // 2), P // 2), A)
    two = lambda st: [sym(st, "a"), sym(st, "b")]
    check(f"<{U32F} as std::ops::Add>::add", two, (0, P - 1), {**A, **B})
    check(f"<{U32F} as std::ops::Sub>::sub", two, (0, P - 1), p_add(A, B, -1))
    check(f"<{U32F} as std::ops::Mul>::mul", two, (0, P - 1), p_mul(A, B))
    check(f"<{U32F} as std::ops::Neg>::neg", lambda st: [sym(st, "a")], (0, P - 1), p_add({}, A, -1))
    R.analysed.setdefault("unsupported", []).extend(S.unsupported[:5])


def contract_models(S):
    """U32Field + - * neg as the contracts clause 1 establishes"""
    ctx = S.ctx
    u32 = S.ty("u32")

    def op(kind):
        def f(E, st, fr, bi, callee, args, dest_ty):
            xs = [a.f[0] for a in args]
            rs = []
            for x in xs:
                r = st.res.get(x.vid)
                if r is None:
                    c = st.const(x)
                    r = p_const(c) if c is not None else None
                rs.append(r)
            tt = frozenset().union(*[st.taint.get(x.vid) or frozenset() for x in xs])
            z = ctx.mk_int(st, 0, P - 1, u32, taint=tt if tt else False)
            if all(r is not None for r in rs):
                st.res[z.vid] = {"add": lambda: p_add(rs[0], rs[1]), "sub": lambda: p_add(rs[0], rs[1], -1), "mul": lambda: p_mul(rs[0], rs[1]), "neg": lambda: p_add({}, rs[0], -1)}[kind]()
            return ret1(Ag((z,)), st)
        return f
    FE = rf"^<{U32F} as std::ops::"
    return [(FE + r"Add>::add$", op("add")), (FE + r"Sub>::sub$", op("sub")), (FE + r"Mul>::mul$", op("mul")), (FE + r"Neg>::neg$", op("neg"))]


def clause_transform(R):
    quick = R.tier != "thorough"
    lengths = [1 << k for k in range(1, 11) if (1 << k) <= 1024]    # all lengths in both tiers; the property quantifies over n = 2..1024
    prod_max = 16 if quick else 64
    S = Session()
    ctx = S.ctx
    ctx.path_mode_fns = lambda inst: True
    ctx.path_budget = 400000000
    ctx.hooks["may_panic"] = lambda inst: False
    ctx.hooks["exact_collect_max"] = 1100
    ctx.hooks["keep_heads_max"] = 1100
    symalg.install(S, contract_models(S))
    u32, usz = S.ty("u32"), ctx.usize_ty()
    fft, ifft = S.find(f"{FFT_IMPL}::fft"), S.find(f"{FFT_IMPL}::ifft")
    hmul = S.find(f"polynomial::Polynomial::<{U32F}>::hadamard_mul")

    def sym_poly(st, nm, n):
        hd = {}
        for j in range(n):
            x = ctx.mk_int(st, 0, P - 1, u32)
            st.res[x.vid] = p_sym(f"{nm}{j}")
            hd[j] = Ag((x,))
        return Ag((Sq(Ag((ctx.mk_int(st, 0, P - 1, u32),)), ctx.const_int(st, n, usz), hd),))

    def forms(st, v, n):
        c = v.f[0]
        if type(c) is not Sq or not c.head or len(c.head) != n or st.const(c.len) != n:
            return None
        return [st.res.get(c.head[i].f[0].vid) for i in range(n)]
    times = {}
    for n in lengths:
        t0 = time.time()
        st = St()
        st.res[("dummy",)] = {}
        ctx.res_syms = {}
        a = S.cell(st, "a", sym_poly(st, "a", n))
        outs = S.run(fft, [a], st)
        site = f"U32Field fft, n = {n}"
        if len(outs) != 1:
            R.violation("C17-transform", site, f"{len(outs)} outcomes from the symbolic run", key=f"tr|fft|{n}")
            continue
        fa, s2 = outs[0]
        fm = forms(s2, fa, n)
        ok, why = fm is not None and all(f is not None for f in fm), "no exact residue forms for the outputs"
        roots = []
        if ok:
            for i, f in enumerate(fm):
                co = {}
                for mono, c in f.items():
                    if len(mono) != 1 or mono[0][1] != 1:
                        ok, why = False, f"output {i} is not a linear form in the inputs"
                        break
                    co[int(mono[0][0][1:])] = c
                if not ok:
                    break
                if n == 1:
                    ok = co == {0: 1}
                    why = f"length 1: output is {f}"
                    continue
                r = co.get(1, 0)
                if pow(r, n, P) != P - 1 or any(co.get(j, 0) != pow(r, j, P) for j in range(n)):
                    ok, why = False, f"output {i} is not a(r) for a root r of X^{n}+1 modulo p (coefficient of a1 is {r})"
                    break
                roots.append(r)
            if ok and n > 1 and len(set(roots)) != n:
                ok, why = False, "two outputs evaluate at the same root"
        R.check(ok, "C17-transform", site, f"for all inputs: output i = a(r_i) mod p, r_i^{n} = -1, roots pairwise distinct (exact)", why, key=f"tr|fft|{n}")
        S.cell(s2, "fa", fa)
        o2 = S.run(ifft, [Pt(("h", "fa"))], s2)
        okb = len(o2) == 1
        if okb:
            fb = forms(o2[0][1], o2[0][0], n)
            okb = fb is not None and all(fb[j] == p_sym(f"a{j}") for j in range(n))
        R.check(okb, "C17-transform", f"U32Field ifft(fft(a)), n = {n}", "equals a for all inputs (exact; includes the n^-1 constant selected for this length)", "the composition is not the identity", key=f"tr|inv|{n}")
        if n <= prod_max and ok:
            b = S.cell(s2, "b", sym_poly(s2, "b", n))
            (fbv, s4), = S.run(fft, [b], s2)
            S.cell(s4, "fb", fbv)
            (pr, s5), = S.run(hmul, [Pt(("h", "fa")), Pt(("h", "fb"))], s4)
            S.cell(s5, "pr", pr)
            (res, s6), = S.run(ifft, [Pt(("h", "pr"))], s5)
            fr_ = forms(s6, res, n)
            want = []
            for k in range(n):
                acc = {}
                for i in range(n):
                    for j in range(n):
                        if (i + j) % n == k:
                            acc = p_add(acc, p_mul(p_sym(f"a{i}"), p_sym(f"b{j}")), 1 if i + j < n else -1)
                want.append(acc)
            R.check(fr_ is not None and fr_ == want, "C17-transform", f"U32Field ifft(fft(a) .* fft(b)), n = {n}", "equals a*b mod (X^n+1, p) for all inputs (exact)", "differs from the negacyclic product", key=f"tr|prod|{n}")
        times[n] = round(time.time() - t0, 2)
    R.analysed["transform_lengths"] = lengths
    R.analysed["transform_seconds"] = times
    R.analysed.setdefault("unsupported", []).extend(S.unsupported[:5])
    R.floor("lengths with exact transform algebra (30-bit prime)", len(times), len(lengths))


def run(R):
    R.trust("rustc CTFE + MIR (nightly)", "E0 fact extractor", "E2 abstract interpreter (intervals, residue classes modulo p, exact unrolling)")
    R.assume("NOT decided: no wrap-around of the 30-bit prime at run-time magnitudes, the float quotient and its rounding, loop exits, agreement with babai_reduce_bigint, idempotence")
    with absint.modulus(P):
        clause_field(R)
        clause_transform(R)
    from . import signalg          # (installs St.const_vid)
    clause_wiring(R)
    R.floor("rule instances", len(R.obl), 30)


def clause_wiring(R):
    """babai_reduce_i32 on labelled length-2 inputs: which polynomial reaches which transform / product / update,
    and the quotient formula (identity testing on the extracted expression)"""
    import math
    from . import c04
    from .symalg import poly, coeff_tags, cev, Env, NotSymbolic, close, leaves, int_root
    S = Session()
    ctx = S.ctx
    ctx.hooks["exact_collect_max"] = 8
    ctx.hooks["may_panic"] = lambda inst: False
    ctx.hooks["inline"] = lambda c: "num::Complex" in c.name
    ctx.path_mode_fns = lambda inst: inst.local
    NN = 2
    u32, i32, usz = S.ty("u32"), S.ty("i32"), ctx.usize_ty()
    calls = []

    def upoly(st, lab):
        return Ag((Sq(Ag((ctx.mk_int(st, 0, P - 1, u32, taint=frozenset({lab})),)), ctx.const_int(st, NN, usz), {i: Ag((ctx.mk_int(st, 0, P - 1, u32, taint=frozenset({f"{lab}[{i}]"})),)) for i in range(NN)}),))

    def rec(E, *x):
        if not E.ctx.quiet:
            calls.append(x)

    newargs = []

    def m_new(E, st, fr, bi, callee, args, dest_ty):
        a = args[0]
        labs = st.taint.get(a.vid) if type(a) is I else None
        if type(a) is I and labs and not E.ctx.quiet:
            newargs.append((labs, st.itv[a.vid], st.prov.get(a.vid, (None,))[0]))
        if not labs and type(a) is I:
            p = st.prov.get(a.vid)
            if p and p[0] == "f2i" and isinstance(p[2], tuple) and p[2][0] == "round" and isinstance(p[2][1], str):
                labs = frozenset({"round(" + p[2][1] + ")"})
            elif p and p[0] == "f2i":
                labs = frozenset({"f2i(" + str(p[2])[:60] + ")"})
        z = ctx.mk_int(st, 0, P - 1, u32, taint=labs if labs else False)
        return ret1(Ag((z,)), st)

    def m_ntt(E, st, fr, bi, callee, args, dest_ty):
        v = E.load(st, args[0].key, args[0].proj)
        rec(E, "ntt", bi, c04.labels(st, v))
        return ret1(upoly(st, f"ntt@{bi}"), st)

    def m_intt(E, st, fr, bi, callee, args, dest_ty):
        v = E.load(st, args[0].key, args[0].proj)
        rec(E, "intt", bi, c04.labels(st, v))
        return ret1(upoly(st, f"intt@{bi}"), st)

    def m_hmul(E, st, fr, bi, callee, args, dest_ty):
        rec(E, "hmul", bi, [c04.labels(st, E.load(st, a.key, a.proj)) for a in args])
        return ret1(upoly(st, f"mul@{bi}"), st)

    def m_bal(E, st, fr, bi, callee, args, dest_ty):
        v = E.load(st, args[0].key, args[0].proj)
        x = v.f[0]
        labs = st.taint.get(x.vid) or frozenset()
        z = ctx.mk_int(st, -(P // 2), P // 2, i32, taint=frozenset({"bal(" + next(iter(labs)) + ")"}) if len(labs) == 1 else labs)
        return ret1(z, st)

    def m_cfft(E, st, fr, bi, callee, args, dest_ty):
        v = E.load(st, args[0].key, args[0].proj)
        base = None
        try:
            tags = coeff_tags(v)
            for i, (re_, im_) in enumerate(tags):
                lv = [l for l in leaves(re_) if isinstance(l, tuple) and st.const_vid(l[1]) is None]
                labs = st.taint.get(int_root(st, lv[0][1])[1]) if len(lv) == 1 else None
                if im_ != 0.0 or not labs or len(labs) != 1:
                    raise NotSymbolic("x")
                b = next(iter(labs)).rsplit("[", 1)[0]
                if base not in (None, b):
                    raise NotSymbolic("mixed")
                base = b
        except (NotSymbolic, AttributeError) as ex_:
            import os
            if os.environ.get("DBG_CFFT"):
                print("cfft fail", type(ex_).__name__, ex_, [str(t_)[:160] for t_ in (coeff_tags(v) if True else [])][:2])
            base = "?"
        rec(E, "cfft", bi, base)
        return ret1(poly(S, st, f"^{base}", NN), st)

    def m_cifft(E, st, fr, bi, callee, args, dest_ty):
        v = E.load(st, args[0].key, args[0].proj)
        rec(E, "cifft", bi, v, st.copy())
        return ret1(poly(S, st, "q", NN), st)
    U = rf"<{POLY} as falcon_rust::fast_fft::FastFft>"
    C = r"<falcon_rust::polynomial::Polynomial<num::Complex<f64>> as falcon_rust::fast_fft::FastFft>"
    symalg.install(S, [(U + r"::fft$", m_ntt), (U + r"::ifft$", m_intt), (rf"Polynomial::<{U32F}>::hadamard_mul$", m_hmul), (C + r"::fft$", m_cfft), (C + r"::ifft$", m_cifft),
                       (r"^falcon_rust::u32_field::U32Field::new$", m_new), (r"^falcon_rust::u32_field::U32Field::balanced_value$", m_bal)])
    br = S.find("math::babai_reduce_i32")
    st = St()
    B = 1 << 23
    args = []
    for nm, mut in (("f", False), ("g", False), ("F", True), ("G", True)):
        args.append(S.cell(st, nm, c04.ipoly(S, st, nm, i32, -B, B), mut=mut))
    n_obl0 = len(ctx.obl)
    edges = []

    def obs_edge(ev, **kw):
        if ev == "edge" and not ctx.quiet and kw["frame"].inst is br:
            d = kw["discr"]
            edges.append((kw["bb"], kw["target"], (kw["st"].taint.get(d.vid) if type(d) is I else None) or frozenset()))
    ctx.observers.append(obs_edge)
    outs = S.run(br, args, st)
    ctx.observers.remove(obs_edge)
    site = "babai_reduce_i32"
    # integer-logarithm preconditions met on the way (the bit-size helper): must hold for every input, all-zero (F, G) included —
    # the big-integer sibling returns Ok there, so a panic here is a disagreement inside the property's domain (defect D7, fixed)
    ilogs = [o for o in S.obligations_since(n_obl0) if o.kind == "ilog2"]
    R.check(bool(ilogs) and all(o.ok for o in ilogs), "C17-total", site + " bit-size helper", f"every ilog2 argument is provably positive ({len(ilogs)} site(s)), also for all-zero inputs",
            f"an ilog2 argument may be zero or negative: {[o.detail for o in ilogs if not o.ok][:2]} — panics on an all-zero (F, G) or (f, g) where babai_reduce_bigint returns Ok", key="total|ilog2")
    if not outs:
        R.violation("C17-wiring", site, "no return found in the abstract run", key="w|run")
        return
    ntts = [c for c in calls if c[0] == "ntt"]
    L = lambda nm: [frozenset({f"{nm}[{i}]"}) for i in range(NN)]
    ntt_f = [c[1] for c in ntts if c[2] == L("f")]
    ntt_g = [c[1] for c in ntts if c[2] == L("g")]
    ntt_k = [c[1] for c in ntts if c[2] == [frozenset({f"round(q[{i}].re)"}) for i in range(NN)]]
    R.check(len(set(ntt_f)) == 1 and len(set(ntt_g)) == 1 and len(set(ntt_k)) == 1 and len({c[1] for c in ntts}) == 3, "C17-wiring", site + " transforms",
            "three modular transforms: of f, of g, and of k = round(Re(quotient)) coefficient by coefficient", f"modular transforms seen: {[(c[1], c[2]) for c in ntts][:6]}", key="w|ntt")
    # loop exits: in the reference (and in the big-integer sibling) the reduction loop is left when the rounded quotient k is
    # zero, or when size(F, G) < size(f, g) with both sizes at least 53 bits — which 32-bit inputs never reach. So for i32
    # inputs no FEASIBLE exit of the loop that computes k may be decided by the raw magnitudes of f, g, F, G (labels f[i], ..;
    # the transforms cut those labels, so the k = 0 exit and the iteration cap carry none of them).
    body = ctx.body(br)
    S.E.loop_depth(body)
    loops = getattr(body, "_loop_bodies", {})
    main = None
    if ntt_k:
        cands = [b_ for h, b_ in loops.items() if ntt_k[0] in b_]
        main = max(cands, key=len) if cands else None
    if main is None:
        R.assumed("C17-exit", site + " loop exits", "the loop that computes k was not found in babai_reduce_i32 own body (moved into a helper?): exits not decided", key="exit|raw")
    else:
        raw = {f"{nm}[{i}]" for nm in "fgFG" for i in range(NN)}
        ex = [(b_, t, sorted(l & raw)) for (b_, t, l) in edges if b_ in main and t not in main]
        bad = [e for e in ex if e[2]]
        R.check(not bad, "C17-exit", site + " loop exits",
                f"{len(ex)} feasible exit edge(s) of the reduction loop, none decided by the raw magnitudes of f, g, F, G (the size guard max(53, ..) < max(53, ..) is dead for 32-bit inputs, as in the reference)",
                f"exit edge bb{bad[0][0]} -> bb{bad[0][1]} at {body.span_of(bad[0][0])} is feasible and depends directly on {bad[0][2][:4]}: the loop can be left although the rounded quotient is not zero (the big-integer sibling keeps reducing)" if bad else "",
                key="exit|raw")
        R.floor("feasible exits of the reduction loop", len(ex), 1)
        # the reduction iterates: after an update with k != 0 the quotient is computed again (the loop's back edge is feasible).
        # One pass is not enough for the property's "a second reduction is the identity": the first rounded quotient can be
        # off by a few units for ill-conditioned (f, g), which the following passes repair.
        R.check(len(ntt_k) >= 2, "C17-exit", site + " iteration",
                f"the transform of k is reached again after an update ({len(ntt_k)} abstract evaluations: first pass and the joined later passes)",
                f"the quotient is computed only once ({len(ntt_k)} abstract evaluation): every path leaves the loop after the first update, so (F, G) is returned without the confirming pass and need not be reduced",
                key="exit|iterates")
    # the coefficients of f and g enter the modular side as they are: the value handed to U32Field::new is the input coefficient
    # itself (any value of the input range), not a narrowed copy (`as i8`, a clamp) — the float side uses the true f, g, so a
    # narrowed copy makes the integer side subtract k times something else
    raw_in = [(l, itv, pv) for (l, itv, pv) in newargs if len(l) == 1 and next(iter(l)).split("[")[0] in ("f", "g")]
    narrowed = [(sorted(l)[0], itv, pv) for (l, itv, pv) in raw_in if itv != (-B, B)]
    R.check(bool(raw_in) and not narrowed, "C17-wiring", site + " embedding of f, g",
            f"{len(raw_in)} coefficient(s) of f, g reach U32Field::new with their full range [-2^23, 2^23]",
            (f"coefficient {narrowed[0][0]} reaches U32Field::new as a value in {narrowed[0][1]} ({narrowed[0][2]}): narrowed on the way, the modular side works with a different f, g than the float side"
             if narrowed else "no coefficient of f, g reaches U32Field::new as itself (it is converted through some other path first)"), key="w|embed")
    hm = {c[1]: c[2] for c in calls if c[0] == "hmul"}
    it = {c[1]: c[2] for c in calls if c[0] == "intt"}
    ok = len(hm) == 2 and len(it) == 2 and ntt_f and ntt_g and ntt_k
    prod = {}
    if ok:
        for bi, (a, b) in hm.items():
            names = {a[0] and next(iter(a[0])).split("[")[0], b[0] and next(iter(b[0])).split("[")[0]}
            if names == {f"ntt@{ntt_k[0]}", f"ntt@{ntt_f[0]}"}:
                prod["f"] = bi
            if names == {f"ntt@{ntt_k[0]}", f"ntt@{ntt_g[0]}"}:
                prod["g"] = bi
    R.check(ok and set(prod) == {"f", "g"}, "C17-wiring", site + " products", "exactly two pointwise products: ntt(k) with ntt(f) and the SAME ntt(k) with ntt(g)", f"products seen: {hm}", key="w|hmul")
    inv = {}
    if ok and set(prod) == {"f", "g"}:
        for bi, lab in it.items():
            for nm in ("f", "g"):
                if lab == [frozenset({f"mul@{prod[nm]}[{i}]"}) for i in range(NN)]:
                    inv[nm] = bi
    R.check(set(inv) == {"f", "g"}, "C17-wiring", site + " inverse transforms", "each product is inverse-transformed", f"inverse transforms seen: {it}", key="w|intt")
    oku = set(inv) == {"f", "g"}
    for r, s2 in outs:
        for nm, big in (("f", "F"), ("g", "G")):
            if not oku:
                break
            got = c04.labels(s2, s2.store[("h", big)])
            want_min = [frozenset({f"{big}[{i}]"}) for i in range(NN)]
            want_max = [frozenset({f"{big}[{i}]", f"bal(intt@{inv[nm]}[{i}])"}) for i in range(NN)]
            oku = oku and got is not None and all(want_min[i] <= (got[i] or frozenset()) <= want_max[i] for i in range(NN))
    R.check(oku, "C17-wiring", site + " updates", "F_i depends on F_i and the centred i-th coefficient of k*f only, G_i on G_i and k*g only (same positions)", "the updated F / G depend on other values", key="w|update")
    # quotient formula
    ci = [c for c in calls if c[0] == "cifft"]
    okq, why = bool(ci), "no complex inverse transform seen"
    if ci:
        try:
            tg = coeff_tags(ci[0][2])          # first trip round the loop: F, G are still the arguments
            stq = ci[0][3]
            for t in range(6):
                env = Env(700 + t)

                def le(leaf):
                    if isinstance(leaf, tuple):
                        c = stq.const_vid(leaf[1])
                        return float(c) if c is not None else None
                    return env(leaf)
                for e in range(NN):
                    Fh, Gh, fh, gh = (env.c(f"^{x}[{e}]") for x in ("F", "G", "f", "g"))
                    want = (Fh * fh.conjugate() + Gh * gh.conjugate()) / (fh * fh.conjugate() + gh * gh.conjugate())
                    got = cev(tg[e], le)
                    if not close(got, want):
                        okq, why = False, f"quotient coefficient {e}: extracted expression gives {got}, (F f* + G g*)/(f f* + g g*) = {want}"
        except NotSymbolic as ex:
            okq, why = False, f"quotient not symbolic: {ex}"
    bases = [c[2] for c in calls if c[0] == "cfft"][:4]
    R.check(sorted(bases) == ["F", "G", "f", "g"], "C17-wiring", site + " float transforms", "the complex transform is applied to f, g, F and G (each scaled by one power of two)", f"complex transforms of {bases}", key="w|cfft")
    R.check(okq, "C17-wiring", site + " quotient", "the vector that is inverse-transformed and rounded is (F^ f^* + G^ g^*) / (f^ f^* + g^ g^*) pointwise (identity test)", why, key="w|quot")
    R.analysed.setdefault("unsupported", []).extend(S.unsupported[:5])
