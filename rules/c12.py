"""C12 — arithmetic modulo q is exact and canonical.

Decided by abstract interpretation with intervals + residue classes modulo q (polynomials in the
input symbols) + trace partitioning on the branch-free idioms, under the invariant that every
`Felt` argument is canonical:  range of every result, residue class of every result, no
arithmetic assert can fire, and the invariant itself (every construction site of `Felt` is one of
the analysed functions and yields a canonical value)."""
from fv.absint import St, Pt, Ag, I, p_sym, p_mul, p_const, iter_ints
from fv.mir import Body, kind_of
from fv.oracle import Q
from .common import Session, FELT, FELT_TY, record_obligations

LEVEL = "proof"
TECHNIQUE = "abstract interpretation: intervals + residue classes mod q + trace partitioning"
EXPLANATION = ("Each field operation is analysed once for ALL canonical inputs (and Felt::new for all i16): the abstract result must lie in the stated "
               "range and carry the stated residue class as a polynomial identity modulo q in the input symbols; every overflow/division assert in the "
               "bodies must be discharged. Obligations = range + class + asserts + constructor census.")


def poly_pow(sym, e):
    return {((sym, e),): 1}


def run(R):
    S = Session()
    ctx, E, prog = S.ctx, S.E, S.prog
    R.trust("rustc MIR (nightly)", "E0 fact extractor", "E2 abstract interpreter (intervals, residue classes, partitioning)")
    u32, i16 = S.ty("u32"), S.ty("i16")
    analysed = set()
    ctx.res_syms = {}

    def sym_felt(st, name, lo=0, hi=Q - 1):
        v = ctx.mk_int(st, lo, hi, u32)
        st.res[v.vid] = p_sym(name)
        ctx.res_syms[name] = v.vid
        return Ag((v,))

    def check(name, mkargs, want_rng, want_poly, label=None, expect_panic=False):
        inst = S.find(name)
        analysed.add(inst.name)
        st = St()
        st.res[("dummy",)] = {}     # switch residue tracking on
        st.itv[("dummy",)] = (0, 0)
        args = mkargs(st)
        n0 = len(ctx.obl)
        outs = S.run(inst, args, st)
        site = label or inst.name
        obls = S.obligations_since(n0)
        record_obligations(R, "C12-asserts", obls, site_prefix="")
        if not outs:
            R.violation("C12-range", site, "no return (function diverges on canonical inputs)", key=f"ret|{site}")
            return
        ret, rst = outs[0]
        ints = [i for _, i in iter_ints(ret)]
        if len(ints) != 1:
            R.violation("C12-range", site, f"unexpected return shape {ret}", key=f"shape|{site}")
            return
        v = ints[0]
        lo, hi = rst.itv[v.vid]
        R.check(want_rng[0] <= lo and hi <= want_rng[1], "C12-range", site, f"result in [{lo},{hi}] within [{want_rng[0]},{want_rng[1]}]",
                key=f"range|{site}", data={"got": [lo, hi], "want": list(want_rng)})
        got = rst.res.get(v.vid)
        R.check(got == want_poly, "C12-class", site, f"residue class of the result is {fmt(got)}" + ("" if got == want_poly else f", expected {fmt(want_poly)}"),
                key=f"class|{site}", data={"got": fmt(got), "want": fmt(want_poly)})

    def fmt(p):
        if p is None:
            return "unknown"
        if not p:
            return "0"
        return " + ".join((f"{c}*" if c != 1 or not m else "") + "*".join(f"{s}^{e}" if e != 1 else s for s, e in m) for m, c in sorted(p.items())) or "0"

    A, B = p_sym("a"), p_sym("b")
    # Felt::new on all of i16
    def mk_new(st):
        v = ctx.top_int(st, i16)
        st.res[v.vid] = p_sym("a")
        ctx.res_syms["a"] = v.vid
        return [v]
    check("falcon_field::Felt::new", mk_new, (0, Q - 1), A)
    ref = lambda st, name: S.cell(st, "self_" + name, sym_felt(st, name))
    check("falcon_field::Felt::value", lambda st: [ref(st, "a")], (0, Q - 1), A)
    check("falcon_field::Felt::balanced_value", lambda st: [ref(st, "a")], (-(Q // 2), Q // 2), A)
    check("falcon_field::Felt::multiply", lambda st: [ref(st, "a"), sym_felt(st, "b")], (0, Q - 1), p_mul(A, B))
    two = lambda st: [sym_felt(st, "a"), sym_felt(st, "b")]
    check(f"<{FELT} as std::ops::Add>::add", two, (0, Q - 1), {**A, **B})
    check(f"<{FELT} as std::ops::Sub>::sub", two, (0, Q - 1), {((("a", 1),)): 1, ((("b", 1),)): Q - 1})
    check(f"<{FELT} as std::ops::Mul>::mul", two, (0, Q - 1), p_mul(A, B))
    check(f"<{FELT} as std::ops::Neg>::neg", lambda st: [sym_felt(st, "a")], (0, Q - 1), {((("a", 1),)): Q - 1})
    check(f"<{FELT} as falcon_rust::inverse::Inverse>::inverse_or_zero", lambda st: [sym_felt(st, "a")], (0, Q - 1), poly_pow("a", Q - 2))
    check(f"<{FELT} as std::ops::Div>::div", lambda st: [sym_felt(st, "a"), sym_felt(st, "b", 1, Q - 1)], (0, Q - 1),
          {(("a", 1), ("b", Q - 2)): 1}, label="Felt::div (non-zero divisor)")
    check(f"<{FELT} as num::Zero>::zero", lambda st: [], (0, 0), {})
    check(f"<{FELT} as num::One>::one", lambda st: [], (1, 1), p_const(1))
    # in-place variants must route through the checked operators
    for op, poly in (("AddAssign>::add_assign", {**A, **B}), ("SubAssign>::sub_assign", {((("a", 1),)): 1, ((("b", 1),)): Q - 1}), ("MulAssign>::mul_assign", p_mul(A, B))):
        name = f"<{FELT} as std::ops::{op}"
        inst = S.find(name)
        analysed.add(inst.name)
        st = St()
        st.res[("dummy",)] = {}
        st.itv[("dummy",)] = (0, 0)
        p = S.cell(st, "lhs", sym_felt(st, "a"), mut=True)
        n0 = len(ctx.obl)
        outs = S.run(inst, [p, sym_felt(st, "b")], st)
        record_obligations(R, "C12-asserts", S.obligations_since(n0))
        if outs:
            rst = outs[0][1]
            v = rst.store[("h", "lhs")].f[0]
            lo, hi = rst.itv[v.vid]
            R.check(0 <= lo and hi <= Q - 1, "C12-range", inst.name, f"updated value in [{lo},{hi}]", key=f"range|{inst.name}")
            R.check(rst.res.get(v.vid) == poly, "C12-class", inst.name, f"residue class {fmt(rst.res.get(v.vid))}", key=f"class|{inst.name}")
        else:
            R.violation("C12-range", inst.name, "diverges", key=f"ret|{inst.name}")
    # ---- batch inversion, for every zero / non-zero pattern of lengths 1..3 (elements symbolic)
    binv = S.find(f"<{FELT} as falcon_rust::inverse::Inverse>::batch_inverse_or_zero")
    analysed.add(binv.name)
    from fv.absint import Sq
    npat = 0
    for n in ((1, 2, 3, 4, 5, 6) if R.tier == "thorough" else (1, 2, 3, 4)):
        for pat in range(1 << n):
            st = St()
            st.res[("dummy",)] = {}
            st.itv[("dummy",)] = (0, 0)
            ctx.res_syms = {}
            elems = []
            for i in range(n):
                zero = (pat >> i) & 1
                elems.append(sym_felt(st, f"x{i}", 0 if zero else 1, 0 if zero else Q - 1))
                if zero:
                    st.res[elems[-1].f[0].vid] = {}
            hull = elems[0]
            for e in elems[1:]:
                hull = E.join_vals(st, hull, e)
            batch = Sq(hull, ctx.const_int(st, n, ctx.usize_ty()), {i: e for i, e in enumerate(elems)})
            n0 = len(ctx.obl)
            outs = S.run(binv, [S.cell(st, "batch", batch)], st)
            record_obligations(R, "C12-asserts", S.obligations_since(n0))
            site = f"batch_inverse_or_zero n={n} zero-pattern={pat:0{n}b}"
            npat += 1
            if not outs or type(outs[0][0]) is not Sq or not outs[0][0].head or len(outs[0][0].head) != n:
                R.violation("C12-batch", site, "result is not a vector of n distinguished elements", key=f"batch-shape|{n}|{pat}")
                continue
            ret, rst = outs[0]
            ok = True
            why = []
            for i in range(n):
                v = ret.head[i].f[0]
                lo, hi = rst.itv[v.vid]
                zero = (pat >> i) & 1
                got = rst.res.get(v.vid)
                if got is not None:
                    # Fermat: x^(q-1) = 1 for the symbols known to be non-zero
                    red = {}
                    for m, c in got.items():
                        mm = tuple((s_, ((e - 1) % (Q - 1)) + 1) for s_, e in m)
                        mm = tuple((s_, e) for s_, e in mm if e != Q - 1)
                        red[mm] = (red.get(mm, 0) + c) % Q
                    got = {m: c for m, c in red.items() if c}
                want = {} if zero else poly_pow(f"x{i}", Q - 2)
                if not (0 <= lo and hi <= Q - 1) or got != want:
                    ok = False
                    why.append(f"element {i}: range [{lo},{hi}], class {fmt(got)}, expected {fmt(want)}")
            R.check(ok, "C12-batch", site, "every element is the inverse (class x_i^(q-2)) or 0 for a zero input, canonical",
                    "; ".join(why), key=f"batch|{n}|{pat}")
    R.floor("batch inversion patterns", npat, 126 if R.tier == "thorough" else 30)
    ctx.res_syms = {}
    # ---- constructor census: every function that builds a Felt value must be one of the above
    felt_ty = ctx.ty_by_str(FELT_TY)
    ctors = set()
    for inst in prog.inst:
        if not inst.local or inst.body is None:
            continue
        for bb in inst.body["blocks"]:
            for stt in bb["statements"]:
                k, v = kind_of(stt["kind"])
                if k == "Assign":
                    rk, rv = kind_of(v[1])
                    if rk == "Aggregate":
                        ak, av = kind_of(rv[0])
                        if ak == "Adt":
                            # destination type decides
                            b = S.ctx.body(inst)
                            try:
                                dty = E.place_ty(type("F", (), {"body": b})(), v[0]) if v[0]["projection"] else b.locals[v[0]["local"]]["ty"]
                            except Exception:
                                dty = None
                            if dty == felt_ty:
                                ctors.add(inst.name)
    allowed = {n for n in analysed}
    for c in sorted(ctors):
        R.check(c in allowed, "C12-ctor", c, "constructs Felt(..) and is analysed above (result canonical)",
                f"constructs a Felt value directly but is not one of the analysed field operations — the canonical-representative invariant is not established for it",
                key=f"ctor|{c}")
    R.floor("Felt construction sites", len(ctors), 5)
    R.floor("field operations analysed", len(analysed), 15)
    R.analysed["functions"] = sorted(analysed)
    R.analysed["constructors"] = sorted(ctors)
    R.analysed["unsupported"] = S.unsupported[:10]
    R.assume("arguments of type Felt are canonical (0 <= x < q): established inductively by C12-ctor + the constant tables (C11)")
