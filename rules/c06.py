"""C06 — decoding is strict.

Decided per decoder and variant, for every byte string:
 (1) length: Ok is unreachable below and above the specified length;
 (2) header: with the first byte fixed to each of its 256 values, Ok is reachable for exactly one value,
     the one the sibling `to_bytes` writes (so a wrong header, or the other variant's header, is Err);
 (3) public key: every value converted into Z_q on a non-Err path lies in [0, q-1] (no silent reduction);
 (4) the accepted signature is stored verbatim (salt = bytes[1..=40], s = bytes[41..]) so re-encoding
     reproduces the input given (2);
Not decided: bit-level inverse-ness of the field packing loops for keys; the secret-key reserved
pattern (covered exhaustively by the suite's own field-element test)."""
from fv.absint import St, Pt, Ag, I, Sq, En
from fv.oracle import SPEC, Q
from .common import Session, record_obligations
from . import c03

LEVEL = "other"
TECHNIQUE = "input-partitioned abstract interpretation of the three decoders (length partitions, 256 header partitions, range of values entering Z_q)"
EXPLANATION = ("Reachability of the Ok variant is computed by the abstract interpreter on partitions of the input (length below/at/above spec; each header "
               "byte value), so the accepted set of lengths and headers is characterised exactly; the public-key coefficient range is the abstract "
               "argument range at the conversion into the field. Full functional round-trip equality is not decided.")

EXPECT_HEADER = {"Signature": lambda logn: 0x50 | logn, "SecretKey": lambda logn: 0x50 | logn, "PublicKey": lambda logn: logn}


def run(R):
    S = Session()
    ctx = S.ctx
    c03.setup(S, R.tier, R)
    ctx.hooks["exact_collect_max"] = 1100
    state = {"skip1024": True}
    ctx.no_inline = lambda inst: "::from_b0" in inst.name
    ctx.hooks["assume_transform"] = "not the subject of C06 (index safety of the transform layer is C03's obligation)"
    R.trust("rustc MIR (nightly)", "E0 fact extractor", "E2 abstract interpreter and model table")
    felt_args = []

    def obs(ev, **kw):
        if ev == "enter" and not ctx.quiet and kw["callee"].name == "falcon_rust::falcon_field::Felt::new":
            a = kw["args"][0]
            if type(a) is I:
                felt_args.append((kw["frame"].inst.name, kw["st"].itv[a.vid]))
    ctx.observers.append(obs)
    nruns = 0
    for N in (512, 1024):
        logn = SPEC[N]["logn"]
        for kind in ("Signature", "PublicKey", "SecretKey"):
            inst = S.find(f"falcon::{kind}::<{N}>::from_bytes")
            L = c03.lengths(kind, N)
            site = f"{kind}::<{N}>::from_bytes"
            # (1) lengths
            for tag, (lo, hi) in (("shorter", (0, L - 1)), ("longer", (L + 1, 1 << 40))):
                st = St()
                outs = S.run(inst, [S.bytes_slice(st, "bytes", lo, hi)], st)
                nruns += 1
                variants = set()
                for r, _ in outs:
                    if type(r) is En:
                        variants |= set(r.vs)
                R.check(variants == {1}, "C06-length", f"{site} len {tag} than {L}", f"only Err is reachable (variants {sorted(variants)})",
                        f"Ok is reachable for a {tag} input (variants {sorted(variants)})", key=f"len|{kind}|{N}|{tag}")
            # (2) header partitions at the exact length
            accepted = []
            del felt_args[:]
            u8 = S.ty("u8")
            for h in range(256):
                st = St()
                head = {0: ctx.mk_int(st, h, h, u8, taint=True)}
                b = S.bytes_slice(st, "bytes", L, L, head=head)
                if h != EXPECT_HEADER[kind](logn):
                    mark = len(felt_args)
                outs = S.run(inst, [b], st)
                nruns += 1
                okv = any(type(r) is En and 0 in r.vs for r, _ in outs)
                if okv:
                    accepted.append(h)
                    if kind == "Signature":
                        for r, s2 in outs:
                            if type(r) is En and 0 in r.vs:
                                sig = r.vs[0][0]
                                good = type(sig) is Ag and s2.const(sig.f[0].len) == 40 and s2.const(sig.f[1].len) == L - 41
                                R.check(good, "C06-verbatim", site, f"accepted value holds 40 salt bytes and {L - 41} signature bytes (input stored verbatim)", key=f"verbatim|{N}")
            want = EXPECT_HEADER[kind](logn)
            R.check(accepted == [want], "C06-header", site, f"of the 256 first-byte values exactly 0x{want:02x} can reach Ok",
                    f"first-byte values that can reach Ok: {[hex(x) for x in accepted]}, canonical encoder writes 0x{want:02x}", key=f"hdr|{kind}|{N}",
                    data={"accepted": accepted, "expected": want})
            # (3) range of values entering the field (public key)
            if kind == "PublicKey":
                mine = [a for (fn, a) in felt_args if "PublicKey" in fn]
                bad = [a for a in mine if a[0] < 0 or a[1] > Q - 1]
                R.check(mine and not bad, "C06-pkrange", site, f"{len(mine)} conversions into Z_q, all arguments within [0,{Q - 1}]",
                        f"{len(bad)} of {len(mine)} conversions may receive a value outside [0,{Q - 1}], e.g. {bad[:1]} — it would be silently reduced",
                        key=f"pkrange|{N}", data={"example": bad[:3]})
    obls = S.obligations_since(0)
    R.analysed["abstract_runs"] = nruns
    R.analysed["obligations_seen"] = len(obls)
    R.analysed["unsupported"] = S.unsupported[:10]
    R.floor("abstract runs", nruns, 6 * 258)
