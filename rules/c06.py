"""C06 — decoding is strict.

Decided per decoder and variant, for every byte string:
 (1) length: Ok is unreachable below and above the specified length;
 (2) header: with the first byte fixed to each of its 256 values, Ok is reachable for exactly one value,
     the one the sibling `to_bytes` writes (so a wrong header, or the other variant's header, is Err);
 (3) public key: every value converted into Z_q on a non-Err path lies in [0, q-1] (no silent reduction);
 (4) the accepted signature is stored verbatim (salt = bytes[1..=40], s = bytes[41..]) so re-encoding
     reproduces the input given (2);
 (5) secret key: the reserved field value (sign bit set, all other bits clear, i.e. -2^(w-1)) is rejected by
     deserialize_field_element for every field width the variant uses, decided in a known-bits domain (the
     pattern is an abstract input whose bits are all known); controls: all-ones (-1) and "sign bit, one more
     known 1, rest unknown" are accepted and never rejected; all three field loops of from_bytes go through it;
Not decided: bit-level inverse-ness of the field packing loops for keys."""
from fv.absint import St, Pt, Ag, I, Sq, En
from fv.oracle import SPEC, Q
from .common import Session, record_obligations
from . import c03

LEVEL = "other"
TECHNIQUE = "input-partitioned abstract interpretation of the three decoders (length partitions, 256 header partitions, range of values entering Z_q)"
EXPLANATION = ("Reachability of the Ok variant is computed by the abstract interpreter on partitions of the input (length below/at/above spec; each header "
               "byte value), so the accepted set of lengths and headers is characterised exactly; the public-key coefficient range is the abstract "
               "argument range at the conversion into the field. Full functional round-trip equality is not decided.")

EXPECT_HEADER = {"Signature": lambda logn: 0x50 | logn, "SecretKey": lambda logn: 0x50 | logn, "PublicKey": lambda logn: logn}


def run(R):
    S = Session()
    ctx = S.ctx
    c03.setup(S, R.tier, R)
    ctx.hooks["exact_collect_max"] = 1100
    state = {"skip1024": True}
    ctx.no_inline = lambda inst: "::from_b0" in inst.name
    ctx.hooks["assume_transform"] = "not the subject of C06 (index safety of the transform layer is C03's obligation)"
    R.trust("rustc MIR (nightly)", "E0 fact extractor", "E2 abstract interpreter and model table")
    felt_args = []

    def obs(ev, **kw):
        if ev == "enter" and not ctx.quiet and kw["callee"].name == "falcon_rust::falcon_field::Felt::new":
            a = kw["args"][0]
            if type(a) is I:
                felt_args.append((kw["frame"].inst.name, kw["st"].itv[a.vid]))
    ctx.observers.append(obs)
    nruns = 0
    for N in (512, 1024):
        logn = SPEC[N]["logn"]
        for kind in ("Signature", "PublicKey", "SecretKey"):
            inst = S.find(f"falcon::{kind}::<{N}>::from_bytes")
            L = c03.lengths(kind, N)
            site = f"{kind}::<{N}>::from_bytes"
            # (1) lengths
            for tag, (lo, hi) in (("shorter", (0, L - 1)), ("longer", (L + 1, 1 << 40))):
                st = St()
                outs = S.run(inst, [S.bytes_slice(st, "bytes", lo, hi)], st)
                nruns += 1
                variants = set()
                for r, _ in outs:
                    if type(r) is En:
                        variants |= set(r.vs)
                R.check(variants == {1}, "C06-length", f"{site} len {tag} than {L}", f"only Err is reachable (variants {sorted(variants)})",
                        f"Ok is reachable for a {tag} input (variants {sorted(variants)})", key=f"len|{kind}|{N}|{tag}")
            # (2) header partitions at the exact length
            accepted = []
            del felt_args[:]
            u8 = S.ty("u8")
            for h in range(256):
                st = St()
                head = {0: ctx.mk_int(st, h, h, u8, taint=True)}
                b = S.bytes_slice(st, "bytes", L, L, head=head)
                if h != EXPECT_HEADER[kind](logn):
                    mark = len(felt_args)
                outs = S.run(inst, [b], st)
                nruns += 1
                okv = any(type(r) is En and 0 in r.vs for r, _ in outs)
                if okv:
                    accepted.append(h)
                    if kind == "Signature":
                        for r, s2 in outs:
                            if type(r) is En and 0 in r.vs:
                                sig = r.vs[0][0]
                                good = type(sig) is Ag and s2.const(sig.f[0].len) == 40 and s2.const(sig.f[1].len) == L - 41
                                R.check(good, "C06-verbatim", site, f"accepted value holds 40 salt bytes and {L - 41} signature bytes (input stored verbatim)", key=f"verbatim|{N}")
            want = EXPECT_HEADER[kind](logn)
            R.check(accepted == [want], "C06-header", site, f"of the 256 first-byte values exactly 0x{want:02x} can reach Ok",
                    f"first-byte values that can reach Ok: {[hex(x) for x in accepted]}, canonical encoder writes 0x{want:02x}", key=f"hdr|{kind}|{N}",
                    data={"accepted": accepted, "expected": want})
            # (3) range of values entering the field (public key)
            if kind == "PublicKey":
                mine = [a for (fn, a) in felt_args if "PublicKey" in fn]
                bad = [a for a in mine if a[0] < 0 or a[1] > Q - 1]
                R.check(mine and not bad, "C06-pkrange", site, f"{len(mine)} conversions into Z_q, all arguments within [0,{Q - 1}]",
                        f"{len(bad)} of {len(mine)} conversions may receive a value outside [0,{Q - 1}], e.g. {bad[:1]} — it would be silently reduced",
                        key=f"pkrange|{N}", data={"example": bad[:3]})
    obls = S.obligations_since(0)
    clause_reserved(R)
    from . import c05
    c05.clause_field_codec(R, rule="C06-field")
    R.analysed["abstract_runs"] = nruns
    R.analysed["obligations_seen"] = len(obls)
    R.analysed["unsupported"] = S.unsupported[:10]
    R.floor("abstract runs", nruns, 6 * 258)


def clause_reserved(R):
    from fv.absint import Md
    from . import c05
    S = Session()
    ctx = S.ctx
    ctx.hooks["may_panic"] = lambda inst: False
    ctx.hooks["exact_anyall"] = True
    ctx.hooks["exact_collect_max"] = 8
    u8, usz = S.ty("u8"), ctx.usize_ty()
    for N in (512, 1024):
        de = S.find(f"falcon::SecretKey::<{N}>::deserialize_field_element")
        ctx.hooks["unroll"] = lambda fr, h, de=de: 10 if fr.inst is de else 0
        for w in sorted(set(c05.widths(S, N))):
            def go(val, mask):
                st = St()
                b = ctx.mk_int(st, val, val if mask == 0xFF else 255, u8)
                if mask != 0xFF:
                    st.prov[b.vid] = ("kbits", (), (mask, val))
                src = Sq(b, ctx.const_int(st, 1, usz), {0: b})
                bits = S.cell(st, "bits", Md("bitvec", {"len": ctx.const_int(st, w, usz), "src": src}))
                outs = S.run(de, [bits], st)
                vs = set()
                for r, _ in outs:
                    if type(r) is En:
                        vs |= set(r.vs)
                return vs
            site = f"SecretKey::<{N}>::deserialize_field_element, width {w}"
            vs = go(1 << 7, 0xFF)
            R.check(vs == {1}, "C06-reserved", site + ": 1" + "0" * (w - 1), "the reserved minimum value is rejected (only Err reachable)", f"reachable variants {sorted(vs)}: the reserved pattern is accepted", key=f"reserved|{N}|{w}")
            vs = go(((1 << w) - 1) << (8 - w), 0xFF)
            R.check(vs == {0}, "C06-reserved", site + ": " + "1" * w, "-1 is accepted (control)", f"reachable variants {sorted(vs)}", key=f"reserved-ctl1|{N}|{w}")
            okc = True
            for k in range(1, w):
                val = (1 << 7) | (1 << (7 - k))
                mask = val | ((1 << (8 - w)) - 1)          # bits beyond the field width do not exist: mark them known (0)
                vs = go(val, mask)
                okc = okc and vs == {0}
            R.check(okc, "C06-reserved", site + ": sign bit + one more set bit, rest unknown", "every other negative value is accepted, never rejected (control partitions)", "a valid negative field is rejected", key=f"reserved-ctl2|{N}|{w}")
    # wiring: the three field loops of from_bytes call it
    prog = S.prog
    for N in (512, 1024):
        fb = S.find(f"falcon::SecretKey::<{N}>::from_bytes")
        de = S.find(f"falcon::SecretKey::<{N}>::deserialize_field_element")
        seen = prog.reach([fb.id])
        callers = [prog.inst[i] for i in seen if any(e.get("to") == de.id for e in prog.inst[i].edges if e["k"] in ("call", "fnitem", "reify"))]
        # (one call site in a shared helper or three in three copies of the loop: both are the same decoder)
        R.check(len(callers) >= 1, "C06-reserved", f"SecretKey::<{N}>::from_bytes", f"the field loops decode through deserialize_field_element ({len(callers)} calling function(s) in from_bytes' cone)",
                "deserialize_field_element is not reachable from from_bytes", key=f"reserved-wiring|{N}")
    R.analysed.setdefault("unsupported", []).extend(S.unsupported[:5])
