"""The algebra of `sign`, decided symbolically (shared by C01 clause 1a and C10 clause 8).

sign::<N> is interpreted on a secret key whose four basis polynomials are vectors of symbolic integers
(length 2 — the code is length-generic, the algebra is pointwise in the Fourier domain), with the
numerical callees replaced by *linear/opaque symbolic models*:
  fft(alpha * u)  ->  alpha * û      (û: fresh complex symbols; the input must be a constant multiple of one
                                      labelled integer vector, embedded as (x, 0) — anything else is reported)
  ffsampling(..)  ->  (zA, zB)       fresh symbols;   ifft, hash_to_point, compress: opaque, arguments recorded
Every f64 carries the expression that produced it, so the candidate (s0, s1), the target t handed to the
sampler and the squared norm are expression trees over { ĉ, b̂0..b̂3, zA, zB }.  Checked by identity testing
(random points, with the NTRU equation f G - g F = q imposed on the point):

  a  s(z = 0) = (kappa ĉ, 0), kappa = +-1                                 (t = (c, 0) B^-1 up to sign)
  b  s(z = t) = 0 for the very t that is handed to ffsampling              (s = (t - z) B'')
  c  rows of B'' = -ds/dz lie in the verifier's lattice: u f + kappa v g = 0 resp. +-q
  d  B'' B''* = B B* for B = [[b0, b1], [b2, b3]]                          (the tree was built for this basis)
  e  the norm compared with the bound is (|s0|^2 + |s1|^2) / n summed over all coefficients
  f  what is inverse-transformed, rounded and compressed is s1 (second component); the tree, parameters and
     generator handed to ffsampling are the key's tree, this variant's parameters and the per-call generator

f, g are read the way PublicKey::from_secret_key reads them (g = b0, f = -b1): C04 checks that side.
Not decided: floating-point error, and that ffsampling returns z close to t (C10 clauses 2-7 give its structure).
"""
import math

from fv.absint import St, Pt, Ag, I, Sq, En, Md, Fl, Top
from fv.models import ret1
from fv.oracle import SPEC, Q
from .common import Session
from . import symalg, skeleton
from .symalg import poly, cplx, coeff_tags, ev, cev, Env, NotSymbolic, close

NN = 2
SEEDS = 6
INF = math.inf


def lin_input(st, v):
    """input vector x_i = alpha * u_i with u one labelled integer vector, embedded as (x, 0) -> (alpha, base)"""
    tags = coeff_tags(v)
    alphas, base = [], None
    for i, (re_, im_) in enumerate(tags):
        lv = [l for l in symalg.leaves(re_) if isinstance(l, tuple) and st.const_vid(l[1]) is None]
        if len(lv) != 1 or im_ != 0.0:
            raise NotSymbolic(f"transform input {i} is ({re_}, {im_}): not a scaled embedding of one integer")
        k_int, root = symalg.int_root(st, lv[0][1])
        labs = st.taint.get(root) or frozenset()
        if len(labs) != 1:
            raise NotSymbolic(f"transform input {i} carries labels {sorted(labs)}")
        lab = next(iter(labs))
        b, idx = lab.rsplit("[", 1)
        if idx != f"{i}]" or base not in (None, b):
            raise NotSymbolic(f"transform input {i} is {lab}: coefficients permuted or mixed")
        base = b

        def f(x, re_=re_, leaf=lv[0]):
            return ev(re_, lambda l: x if l == leaf else (float(st.const_vid(l[1])) if isinstance(l, tuple) and st.const_vid(l[1]) is not None else None))
        a1, a2, a0 = f(1.0), f(2.0), f(0.0)
        if a0 != 0.0 or abs(a2 - 2 * a1) > 1e-12 * abs(a1):
            raise NotSymbolic(f"transform input {i} is not linear in {lab}")
        alphas.append(a1 * k_int)
    if max(alphas) - min(alphas) > 1e-15:
        raise NotSymbolic("transform input scaling differs between coefficients")
    return alphas[0], base


def clause_sign(R, rule):
    """quick: vectors of length 2, 6 random points; thorough: lengths 2 and 4, 40 points"""
    global NN, SEEDS
    SEEDS = 40 if R.tier == "thorough" else 6
    try:
        for nn in ((2, 4) if R.tier == "thorough" else (2,)):
            NN = nn
            for N in (512, 1024):
                _sign_one(R, rule, N)
    finally:
        NN, SEEDS = 2, 6


def _const_vid(st, vid):
    lo, hi = st.itv.get(vid, (None, None))
    return lo if lo is not None and lo == hi else None


St.const_vid = _const_vid


def _sign_one(R, rule, N):
    S = Session()
    ctx = S.ctx
    ctx.path_mode_fns = lambda inst: inst.local
    ctx.hooks["inline"] = lambda c: "num::Complex" in c.name
    ctx.hooks["exact_collect_max"] = 8
    ctx.hooks["may_panic"] = lambda inst: False
    usz, u32, i16, u8 = ctx.usize_ty(), S.ty("u32"), S.ty("i16"), S.ty("u8")
    spec = SPEC[N]
    site = f"sign::<{N}>" + ("" if NN == 2 else f" [vectors of length {NN}]")
    KS = "" if NN == 2 else f"|len{NN}"
    calls = []

    def m_fft(E, st, fr, bi, callee, args, dest_ty):
        v = E.load(st, args[0].key, args[0].proj)
        try:
            a, base = lin_input(st, v)
        except NotSymbolic as e:
            if not E.ctx.quiet:
                calls.append(("fft-error", str(e)))
            return ret1(poly(S, st, "unknown", NN), st)
        if not E.ctx.quiet:
            calls.append(("fft", a, base))
        head = {e: Ag((Fl(-INF, INF, False, ("fMul", a, f"^{base}[{e}].re")), Fl(-INF, INF, False, ("fMul", a, f"^{base}[{e}].im")))) for e in range(NN)}
        return ret1(Ag((Sq(cplx("^" + base), ctx.const_int(st, NN, usz), head),)), st)

    def m_h2p(E, st, fr, bi, callee, args, dest_ty):
        if not E.ctx.quiet:
            calls.append(("hash_to_point", st.itv[args[1].vid] if type(args[1]) is I else None))
        head = {i: Ag((ctx.mk_int(st, 0, Q - 1, u32, taint=frozenset({f"c[{i}]"})),)) for i in range(NN)}
        return ret1(Ag((Sq(Ag((ctx.mk_int(st, 0, Q - 1, u32, taint=frozenset({"c"})),)), ctx.const_int(st, NN, usz), head),)), st)

    def m_ffs(E, st, fr, bi, callee, args, dest_ty):
        t = E.load(st, args[0].key, args[0].proj)
        if not E.ctx.quiet:
            pv = E.load(st, args[2].key, args[2].proj) if type(args[2]) is Pt and args[2].key else None
            rv = E.load(st, args[3].key, args[3].proj) if type(args[3]) is Pt and args[3].key else None
            calls.append(("ffsampling", t, args[1], pv, rv, st.copy()))
        return ret1(Ag((poly(S, st, "zA", NN), poly(S, st, "zB", NN))), st)

    def m_ifft(E, st, fr, bi, callee, args, dest_ty):
        v = E.load(st, args[0].key, args[0].proj)
        if not E.ctx.quiet:
            calls.append(("ifft", v, st.copy()))
        return ret1(poly(S, st, "ifft", NN), st)

    def m_compress(E, st, fr, bi, callee, args, dest_ty):
        v = E.load(st, args[0].key, args[0].proj) if type(args[0]) is Pt else args[0]
        if not E.ctx.quiet:
            calls.append(("compress", v, st.copy()))
        return [(En({1: (Sq(ctx.top_int(st, u8), ctx.mk_int(st, st.lo(args[1]), st.hi(args[1]), usz)),)}), st.copy()), (En({0: ()}), st)]
    CP = r"<falcon_rust::polynomial::Polynomial<num::Complex<f64>> as falcon_rust::fast_fft::FastFft>"
    symalg.install(S, [(CP + r"::fft$", m_fft), (CP + r"::ifft$", m_ifft), (r"^falcon_rust::polynomial::hash_to_point$", m_h2p),
                       (r"^falcon_rust::ffsampling::ffsampling$", m_ffs), (r"^falcon_rust::encoding::compress$", m_compress)])
    sign = S.find(f"falcon::sign::<{N}>")
    fcmps, arrs, polys, ffs_seen = [], [], [], [False]

    def obs(evn, **kw):
        if ctx.quiet:
            return
        if evn == "branch":
            p = kw["st"].prov.get(kw["discr"].vid)
            if kw["frame"].inst is sign and p and p[0] == "fcmp":
                fcmps.append((p[2], kw["st"].copy()))
        if evn == "assign" and kw["frame"].inst is sign:
            v = kw["value"]
            if type(v) is Sq and v.head and len(v.head) == 2 and type(v.head[0]) is Ag and len(v.head[0].f) == 1 and type(v.head[0].f[0]) is Sq and type(v.head[0].f[0].elem) is Ag:
                arrs.append((v, kw["st"].copy()))
            if (ffs_seen[0] and type(v) is Ag and len(v.f) == 1 and type(v.f[0]) is Sq and v.f[0].head and len(v.f[0].head) == NN
                    and type(v.f[0].elem) is Ag and len(v.f[0].elem.f) == 2 and type(v.f[0].elem.f[0]) is Fl and len(polys) < 64):
                polys.append((v, kw["st"].copy()))
        if evn == "ret" and kw["frame"].inst is sign and ffs_seen[0]:
            v = kw["value"]
            if (type(v) is Ag and len(v.f) == 1 and type(v.f[0]) is Sq and v.f[0].head and len(v.f[0].head) == NN
                    and type(v.f[0].elem) is Ag and len(v.f[0].elem.f) == 2 and type(v.f[0].elem.f[0]) is Fl and len(polys) < 64):
                polys.append((v, kw["st"].copy()))
        if evn == "enter" and kw["callee"].name.endswith("ffsampling::ffsampling"):
            ffs_seen[0] = True
    ctx.observers.append(obs)
    st = St()

    def ipoly(lab):
        return Ag((Sq(ctx.top_int(st, i16, taint=frozenset({lab})), ctx.const_int(st, NN, usz), {i: ctx.top_int(st, i16, taint=frozenset({f"{lab}[{i}]"})) for i in range(NN)}),))
    b0 = Sq(ipoly("b"), ctx.const_int(st, 4, usz), {i: ipoly(f"b{i}") for i in range(4)})
    sk = S.cell(st, "sk", Ag((b0, Md("ldltree", {"of": "sk"}))))
    m = skeleton.labelled_bytes(S, st, "m", 0, 1 << 32, "m")
    outs = S.run(sign, [m, sk], st)
    ctx.observers.remove(obs)
    R.analysed.setdefault("sign_algebra", {})[str(N)] = {"calls": [c[0] for c in calls], "outcomes": len(outs)}
    errs = [c for c in calls if c[0] == "fft-error"]
    if errs:
        R.violation(rule, site, f"a forward transform is applied to something that is not a constant multiple of one key/hash polynomial: {errs[0][1]}", key=f"sign|{N}|fftin{KS}")
        return
    ffts = [(c[1], c[2]) for c in calls if c[0] == "fft"]
    ffs = [c for c in calls if c[0] == "ffsampling"]
    if outs and ffs and not arrs:
        # the kept candidate is not held in a two-element array: its second component is what the inverse transform is applied
        # to; its first component is looked for among the polynomials computed after the sampler call — the one for which the
        # pair is (+-c, 0) at z = 0 (clause a); clauses (b)-(e) are then decided for that pair as usual
        iff0 = [c for c in calls if c[0] == "ifft"]
        if iff0:
            s1v, st1 = iff0[-1][1], iff0[-1][2]

            class TwoStates:
                def __init__(self, a, b):
                    self.a, self.b = a, b

                def const_vid(self, v):
                    c = self.a.const_vid(v)
                    return c if c is not None else self.b.const_vid(v)
            for pv_, stp in polys:
                try:
                    tg0, tg1 = coeff_tags(pv_), coeff_tags(s1v)
                    env = Env(7)
                    for e in range(NN):
                        g_, f_, F_ = env.c(f"^b0[{e}]"), -env.c(f"^b1[{e}]"), -env.c(f"^b3[{e}]")
                        env.setc(f"^b2[{e}]", (Q + g_ * F_) / f_)
                        env.setc(f"zA[{e}]", 0j)
                        env.setc(f"zB[{e}]", 0j)
                    ts = TwoStates(stp, st1)

                    def le(leaf):
                        if isinstance(leaf, tuple):
                            c = ts.const_vid(leaf[1])
                            return float(c) if c is not None else None
                        return env(leaf)
                    import os
                    if os.environ.get("DBG_SIGN"):
                        print("cand", cev(tg0[0], le), env.c("^c[0]"), cev(tg1[0], le))
                    if all((close(cev(tg0[e], le), env.c(f"^c[{e}]")) or close(cev(tg0[e], le), -env.c(f"^c[{e}]"))) and close(cev(tg1[e], le), 0j) for e in range(NN)):
                        arrs.append((Sq(pv_, ctx.const_int(st1, 2, usz), {0: pv_, 1: s1v}), ts))
                        break
                except (NotSymbolic, AttributeError, IndexError, KeyError) as ex:
                    import os
                    if os.environ.get("DBG_SIGN"):
                        print("cand fail", type(ex).__name__, ex)
                    continue
        import os
        if os.environ.get("DBG_SIGN"):
            print("polys", len(polys), "iff0", len(iff0), "arrs", len(arrs))
    if not outs or not ffs or not arrs:
        R.violation(rule, site, f"symbolic run incomplete: {len(outs)} outcomes, {len(ffs)} sampler calls, {len(arrs)} candidate pairs", key=f"sign|{N}|run{KS}")
        return
    bases = sorted(b for _, b in ffts)
    R.check(bases == ["b0", "b1", "b2", "b3", "c"], rule, site + " transforms", f"the hash point (scaled by {[a for a, b in ffts if b == 'c'][0] if 'c' in bases else '?'}) and the four basis polynomials are transformed",
            f"transformed: {ffts}", key=f"sign|{N}|ffts{KS}")
    h2p = [c for c in calls if c[0] == "hash_to_point"]
    R.check(len(h2p) == 1 and h2p[0][1] == (N, N), rule, site + " hash", f"one hash_to_point call with n = {N}", f"hash_to_point calls: {h2p}", key=f"sign|{N}|h2p{KS}")
    t_val, tree_arg, pv, rv, st_f = ffs[-1][1:]
    cand, st_c = arrs[-1]
    try:
        t_tags = [coeff_tags(t_val.f[0]), coeff_tags(t_val.f[1])]
        s_tags = [coeff_tags(cand.head[0]), coeff_tags(cand.head[1])]
    except (NotSymbolic, AttributeError, IndexError) as e:
        R.violation(rule, site, f"target or candidate vector has no symbolic form: {e}", key=f"sign|{N}|sym{KS}")
        return

    def mkenv(seed, z=None):
        """random point on the variety f G - g F = q, with g = b0, f = -b1, G = b2, F = -b3"""
        env = Env(seed)
        for e in range(NN):
            g_, f_, F_ = env.c(f"^b0[{e}]"), -env.c(f"^b1[{e}]"), -env.c(f"^b3[{e}]")
            G_ = (Q + g_ * F_) / f_
            env.setc(f"^b2[{e}]", G_)
            if z is not None:
                env.setc(f"zA[{e}]", z[0][e])
                env.setc(f"zB[{e}]", z[1][e])
        return env

    def leafenv(env, stt):
        def f(leaf):
            if isinstance(leaf, tuple):
                c = stt.const_vid(leaf[1])
                return float(c) if c is not None else None
            return env(leaf)
        return f

    def s_at(seed, z):
        env = mkenv(seed, z)
        le = leafenv(env, st_c)
        return env, [[cev(s_tags[k][e], le) for e in range(NN)] for k in range(2)]

    try:
        ok_a = ok_b = ok_c = ok_d = True
        kappa = None
        msg = {}
        for seed in range(SEEDS):
            zero = [[0j] * NN, [0j] * NN]
            env, s0 = s_at(seed, zero)
            for e in range(NN):
                c_ = env.c(f"^c[{e}]")
                k = 1 if close(s0[0][e], c_) else (-1 if close(s0[0][e], -c_) else None)
                if k is None or (kappa not in (None, k)) or not close(s0[1][e], 0j):
                    ok_a = False
                    msg["a"] = f"at z = 0 the candidate is ({s0[0][e]}, {s0[1][e]}), hash point {c_}"
                kappa = k if kappa is None else kappa
            # b: s(z = t) = 0
            le = leafenv(env, st_f)
            tv = [[cev(t_tags[k][e], le) for e in range(NN)] for k in range(2)]
            _, st_ = s_at(seed, tv)
            if not all(abs(st_[k][e]) < 1e-6 for k in range(2) for e in range(NN)):
                ok_b = False
                msg["b"] = f"with z = t the candidate is {st_[0][0]}, {st_[1][0]} instead of 0"
            # rows of B'' = -(s(e_i) - s(0)), pointwise
            for e in range(NN):
                rows = []
                for i in range(2):
                    z = [[0j] * NN, [0j] * NN]
                    z[i][e] = 1 + 0j
                    _, si = s_at(seed, z)
                    rows.append((-(si[0][e] - s0[0][e]), -(si[1][e] - s0[1][e])))
                    # linearity in z
                    z2 = [[0j] * NN, [0j] * NN]
                    z2[i][e] = 2 + 0j
                    _, si2 = s_at(seed, z2)
                    if not close(si2[0][e] - s0[0][e], 2 * (si[0][e] - s0[0][e])) or not close(si2[1][e] - s0[1][e], 2 * (si[1][e] - s0[1][e])):
                        ok_c = False
                        msg["c"] = "the candidate is not affine in the sampler output"
                g_, f_ = env.c(f"^b0[{e}]"), -env.c(f"^b1[{e}]")
                kk = kappa or 1
                r1 = rows[0][0] * f_ + kk * rows[0][1] * g_
                r2 = rows[1][0] * f_ + kk * rows[1][1] * g_
                if not (abs(r1) < 1e-6 and (close(r2, Q) or close(r2, -Q))):
                    ok_c = False
                    msg["c"] = f"rows of the matrix applied to (t - z) are not in the verifier's lattice: u1 f + k v1 g = {r1}, u2 f + k v2 g = {r2} (expected 0 and +-q)"
                B = [[env.c(f"^b0[{e}]"), env.c(f"^b1[{e}]")], [env.c(f"^b2[{e}]"), env.c(f"^b3[{e}]")]]
                for i in range(2):
                    for j in range(2):
                        want = sum(B[i][k] * B[j][k].conjugate() for k in range(2))
                        got = sum(rows[i][k] * rows[j][k].conjugate() for k in range(2))
                        if not close(got, want, 1e-8):
                            ok_d = False
                            msg["d"] = f"Gram entry [{i}][{j}] of the matrix applied to (t - z) is {got}, of the key's basis {want}"
        R.check(ok_a, rule, site + " (a) target", f"s(z = 0) = ({'+' if kappa == 1 else '-'}ĉ, 0): t is (c, 0) B^-1 for the matrix used", msg.get("a", ""), key=f"sign|{N}|a{KS}")
        R.check(ok_b, rule, site + " (b) same target", "the candidate vanishes at z = t for the t handed to ffsampling: s = (t - z) B''", msg.get("b", ""), key=f"sign|{N}|b{KS}")
        R.check(ok_c, rule, site + " (c) coset", "B'' rows satisfy u f + kappa v g = 0 / +-q: every candidate is congruent to the verifier's (c - s2 h, s2) up to sign", msg.get("c", ""), key=f"sign|{N}|c{KS}")
        R.check(ok_d, rule, site + " (d) covariance", "B'' B''* equals the Gram matrix of the key's basis (the one the tree is built from)", msg.get("d", ""), key=f"sign|{N}|d{KS}")
    except NotSymbolic as e:
        R.violation(rule, site, f"candidate not symbolic: {e}", key=f"sign|{N}|sym2{KS}")
        return
    # e: the norm
    okn = False
    why = f"{len(fcmps)} float comparisons seen"
    for (op, ta, tb, ra, rb), stn in fcmps:
        try:
            good = True
            for seed in range(4):
                env = mkenv(100 + seed)
                le = leafenv(env, stn)
                lhs = ev(ta, le)
                sv = [[cev(s_tags[k][e], leafenv(env, st_c)) for e in range(NN)] for k in range(2)]
                want = sum(abs(x) ** 2 for k in range(2) for x in sv[k]) / N
                good = good and close(lhs, want, 1e-9)
            if good and op in ("Gt", "Ge", "Lt", "Le") and rb[0] == rb[1] == float(spec["beta2"]):
                okn = True
            elif good:
                why = f"norm compared ({op}) with {rb}"
        except NotSymbolic as e:
            why = str(e)
    R.check(okn, rule, site + " (e) norm", f"the quantity compared with {spec['beta2']} is (sum |s0|^2 + sum |s1|^2) / {N} over all coefficients of the candidate", why, key=f"sign|{N}|e{KS}")
    # f: plumbing
    okt = type(tree_arg) is Pt and tree_arg.key == ("h", "sk") and len(tree_arg.proj) == 1 and tree_arg.proj[0][:2] == ("f", 1)
    R.check(okt, rule, site + " (f) tree", "ffsampling walks the key's own tree", f"tree argument {tree_arg}", key=f"sign|{N}|tree{KS}")
    okp = type(pv) is Ag and len(pv.f) == 5 and type(pv.f[1]) is Fl and pv.f[1].lo == pv.f[1].hi == spec["sigma"] and pv.f[2].lo == pv.f[2].hi == spec["sigmin"]
    R.check(okp, rule, site + " (f) parameters", f"ffsampling gets this variant's parameters (sigmin = {spec['sigmin']})", f"parameters {pv}", key=f"sign|{N}|params{KS}")
    R.check(type(rv) is Md and rv.kind == "rng" and rv.d.get("origin") == "thread_rng", rule, site + " (f) generator", "ffsampling draws from the per-call thread_rng handle", f"generator {rv}", key=f"sign|{N}|rng{KS}")
    iff = [c for c in calls if c[0] == "ifft"]
    oki = False
    if iff:
        try:
            it = coeff_tags(iff[-1][1])
            oki = True
            for seed in range(3):
                env = mkenv(200 + seed)
                for e in range(NN):
                    oki = oki and close(cev(it[e], leafenv(env, iff[-1][2])), cev(s_tags[1][e], leafenv(env, st_c)))
        except NotSymbolic:
            oki = False
    R.check(oki, rule, site + " (f) emitted component", "the inverse transform is applied to the second component of the kept candidate", key=f"sign|{N}|ifft{KS}")
    cp = [c for c in calls if c[0] == "compress"]
    okc = False
    whyc = "no compress call"
    if cp:
        v, stc = cp[-1][1], cp[-1][2]
        okc = type(v) is Sq and v.head and len(v.head) == NN
        if okc:
            for i in range(NN):
                x = v.head[i]
                p = stc.prov.get(x.vid) if type(x) is I else None
                okc = okc and p is not None and p[0] == "f2i" and p[2] == ("round", f"ifft[{i}].re")
                if not okc:
                    whyc = f"coefficient {i} handed to compress is {p}"
                    break
    R.check(okc, rule, site + " (f) rounding", "compress receives round(re(ifft(s1)[i])) for each i, in order", whyc, key=f"sign|{N}|round{KS}")
    R.analysed.setdefault("unsupported", []).extend(S.unsupported[:5])


# ---------------------------------------------------------------------------------------------- verify
FELT_FFT = r"<falcon_rust::polynomial::Polynomial<falcon_rust::falcon_field::Felt> as falcon_rust::fast_fft::FastFft>"


def clause_verify(R, rule):
    """verify's algebra as residue classes modulo q (exact polynomial identities, no sampling):
    the vector handed to the inverse transform is  ntt(c) - ntt(s2) * ntt(h)  coefficient by coefficient,
    with c the hash point, s2 the decompressed signature body (through Felt::new) and h the public key;
    the norm adds the centred representatives of the inverse transform's output and the raw s2."""
    from fv.absint import p_sym, p_add, p_mul
    for N in (512, 1024):
        S = Session()
        ctx = S.ctx
        ctx.hooks["exact_collect_max"] = 8
        ctx.hooks["may_panic"] = lambda inst: False
        ctx.path_mode_fns = lambda inst: inst.local
        usz, u32, i16, u8 = ctx.usize_ty(), S.ty("u32"), S.ty("i16"), S.ty("u8")
        calls = []
        ctx.res_syms = {}

        def sym_int(st, name, lo, hi, ty):
            x = ctx.mk_int(st, lo, hi, ty, taint=frozenset({name}))
            st.res[x.vid] = p_sym(name)
            ctx.res_syms[name] = x.vid
            return x

        def fpoly(st, lab):
            return Ag((Sq(Ag((ctx.mk_int(st, 0, Q - 1, u32, taint=frozenset({lab})),)), ctx.const_int(st, NN, usz), {i: Ag((sym_int(st, f"{lab}[{i}]", 0, Q - 1, u32),)) for i in range(NN)}),))

        def forms(st, v):
            c = v.f[0]
            return [st.res.get(c.head[i].f[0].vid) for i in sorted(c.head or {})]

        def m_h2p(E, st, fr, bi, callee, args, dest_ty):
            if not E.ctx.quiet:
                calls.append(("hash_to_point", st.itv[args[1].vid] if type(args[1]) is I else None))
            return ret1(fpoly(st, "c"), st)

        def m_dec(E, st, fr, bi, callee, args, dest_ty):
            if not E.ctx.quiet:
                calls.append(("decompress", args[0], st.itv[args[1].vid] if type(args[1]) is I else None))
            v = Sq(ctx.mk_int(st, -2047, 2047, i16, taint=frozenset({"s2"})), ctx.const_int(st, NN, usz), {i: sym_int(st, f"s2[{i}]", -2047, 2047, i16) for i in range(NN)})
            return [(En({1: (v,)}), st.copy()), (En({0: ()}), st)]

        def m_ntt(E, st, fr, bi, callee, args, dest_ty):
            v = E.load(st, args[0].key, args[0].proj)
            fm = forms(st, v)
            base = None
            for i, f in enumerate(fm):
                ok = f is not None and len(f) == 1 and list(f.values()) == [1] and len(list(f)[0]) == 1 and list(f)[0][0][1] == 1
                nm = list(f)[0][0][0] if ok else None
                if not ok or not nm.endswith(f"[{i}]") or base not in (None, nm.rsplit("[", 1)[0]):
                    if not E.ctx.quiet:
                        calls.append(("ntt-error", i, f))
                    return ret1(fpoly(st, "unknown"), st)
                base = nm.rsplit("[", 1)[0]
            if not E.ctx.quiet:
                calls.append(("ntt", base))
            return ret1(fpoly(st, "^" + base), st)

        def m_intt(E, st, fr, bi, callee, args, dest_ty):
            v = E.load(st, args[0].key, args[0].proj)
            if not E.ctx.quiet:
                calls.append(("intt", forms(st, v)))
            return ret1(fpoly(st, "s1"), st)
        symalg.install(S, [(FELT_FFT + r"::fft$", m_ntt), (FELT_FFT + r"::ifft$", m_intt), (r"^falcon_rust::polynomial::hash_to_point$", m_h2p), (r"^falcon_rust::encoding::decompress$", m_dec)]
                       + symalg.felt_contract_models(S))
        ver = S.find(f"falcon::verify::<{N}>")
        sums = []

        def obs(evn, **kw):
            if evn == "sum" and not ctx.quiet and kw["frame"].inst is ver:
                stt = kw["st"]
                sums.append((set(stt.taint.get(kw["item"].vid, set())), stt.itv[kw["n"].vid], stt.itv[kw["item"].vid]))
            elif evn == "assign" and not ctx.quiet and kw["frame"].inst is ver:
                # the norm written as accumulation loops: squares x * x in verify's own body (term count not observed)
                try:
                    from fv.mir import kind_of
                    fr = kw["frame"]
                    stmt = fr.body.blocks[kw["bb"]]["statements"][kw["si"]]
                    k_, v_ = kind_of(stmt["kind"])
                    rk, rv = kind_of(v_[1])
                    if rk in ("BinaryOp", "CheckedBinaryOp") and rv[0] in ("Mul", "MulUnchecked"):
                        stt = kw["st"]
                        x_, y_ = S.E.operand(stt, fr, rv[1]), S.E.operand(stt, fr, rv[2])
                        if type(x_) is I and type(y_) is I and x_.vid == y_.vid:
                            lo_, hi_ = stt.itv[x_.vid]
                            labs = set(stt.taint.get(x_.vid, set()))
                            base = {l.split("[")[0] for l in labs}
                            ent = (base, None, (0 if lo_ <= 0 <= hi_ else min(lo_ * lo_, hi_ * hi_), max(lo_ * lo_, hi_ * hi_)))
                            if ent not in sums:
                                sums.append(ent)
                except Exception:
                    pass
        ctx.observers.append(obs)
        st = St()
        st.res[("dummy",)] = {}
        m = skeleton.labelled_bytes(S, st, "m", 0, 1 << 32, "m")
        slen = SPEC[N]["sig_bytelen"] - 41
        sig = S.cell(st, "sig", Ag((Sq(ctx.top_int(st, u8, taint=frozenset({"salt"})), ctx.const_int(st, 40, usz)), Sq(ctx.top_int(st, u8, taint=frozenset({"s"})), ctx.const_int(st, slen, usz)))))
        pk = S.cell(st, "pk", Ag((fpoly(st, "h"),)))
        outs = S.run(ver, [m, sig, pk], st)
        ctx.observers.remove(obs)
        site = f"verify::<{N}>"
        errs = [c for c in calls if c[0] == "ntt-error"]
        if errs or not outs:
            R.violation(rule, site, f"a forward transform is applied to something other than the hash point, the decoded body or the public key as they are: {errs[:1]}; outcomes {len(outs)}", key=f"verify|{N}|ntt")
            continue
        ntts = sorted(c[1] for c in calls if c[0] == "ntt")
        R.check(ntts == ["c", "h", "s2"], rule, site + " transforms", "exactly the hash point, the public key and the decoded body (each coefficient through its canonical residue) are transformed", f"transformed: {ntts}", key=f"verify|{N}|ntts")
        it = [c for c in calls if c[0] == "intt"]
        want = [p_add(p_sym(f"^c[{e}]"), p_mul(p_sym(f"^s2[{e}]"), p_sym(f"^h[{e}]")), -1) for e in range(NN)]
        R.check(len(it) == 1 and it[0][1] == want, rule, site + " s1", "the inverse transform is applied to ntt(c) - ntt(s2) * ntt(h), as residue classes modulo q (exact identity)",
                f"inverse transform input: {it[0][1] if it else None}", key=f"verify|{N}|s1")
        s1s = [s for s in sums if s[0] and all(l.startswith("s1") for l in s[0])]
        s2s = [s for s in sums if s[0] and all(l.startswith("s2") for l in s[0])]
        half = (Q // 2) ** 2
        two = (len(sums) == 2 and len(s1s) == 1 and len(s2s) == 1 and s1s[0][1] in ((NN, NN), None) and s2s[0][1] in ((NN, NN), None) and s1s[0][2][0] >= 0 and s1s[0][2][1] <= half and s2s[0][2][0] >= 0)
        # or one sum over the 2n squares of both vectors (`s1.iter().chain(s2.iter())`): every coefficient of both must be a term
        need = {f"s1[{i}]" for i in range(NN)} | {f"s2[{i}]" for i in range(NN)}
        one = (len(sums) == 1 and sums[0][0] and need <= set(sums[0][0]) and all(l.startswith(("s1", "s2")) for l in sums[0][0])
               and sums[0][1] in ((2 * NN, 2 * NN), None) and sums[0][2][0] >= 0)
        one = False      # withdrawn: see rules/c02.py (a chained sum over reduced representatives would pass)
        R.check(two or one,
                rule, site + " norm", f"the norm is the sum over all coefficients of (centred s1)^2 (each <= {half}) plus the sum over all coefficients of s2^2",
                f"sums seen: {sums}", key=f"verify|{N}|norm")
        h2p = [c for c in calls if c[0] == "hash_to_point"]
        dc = [c for c in calls if c[0] == "decompress"]
        R.check(len(h2p) == 1 and h2p[0][1] == (N, N) and len(dc) == 1 and dc[0][2] == (N, N), rule, site + " inputs", f"one hash_to_point(.., {N}) and one decompress(.., {N})", f"{h2p} {[c[2] for c in dc]}", key=f"verify|{N}|inputs")
        R.analysed.setdefault("unsupported", []).extend(S.unsupported[:5])
