"""C10 — signatures are spherical Gaussian (decided: the structural preconditions only).

The distribution itself (moments over histories of signatures) is out of reach of static analysis.
Decided are the formulas and the wiring whose violation is exactly what the property's
`why_tests_cant` lists (tree leaves not normalised, sigma too small, rounding instead of sampling):

 1 constants   sigma, sigma_min of both variants equal the re-derived specification values
 2 gram        gram(B) = B x B* entry by entry                                  (identity testing)
 3 ldl         l10 = g10/g00, d00 = g00, d11 = g11 - |l10|^2 g00                (identity testing)
 4 ffldl       Branch(l10, ffldl([d0, d1, conj d1, d0] of split(d00)), same for d11); leaves d00, d11
 5 normalize   leaf <- (sigma / sqrt(leaf[0].re), 0), second slot zero; both children, same sigma
 6 from_b0     tree = normalize(ffldl(gram(fft(b0))), sigma_N); SecretKey built nowhere else
 7 ffsampling  leaf: z_i = sampler_z(t_i[0].re, leaf[0].re, params.sigmin, rng), result is (z0, z1);
               branch: right child first on split(t1), t0' = t0 + (t1 - z1) * l10, left child on split(t0'),
               result (merge z0, merge z1)
 8 sign        t = (c/q) * (F, -f), s = (t - z) * B lies on the coset for EVERY sampler output z
               (shared with C01: rules/signalg.py)

"identity testing": the abstract interpreter labels every f64 with the expression tree that produced it
(read off the MIR for vectors of symbolic length-2/4 inputs); the tree is compared with the specified
formula at random points, so algebraically equivalent code is accepted and any other formula is rejected.
"""
import math
import random

from fv.absint import St, Pt, Ag, I, Sq, En, Md, Fl, Top
from fv.models import ret1
from fv.oracle import SPEC, Q, derived, f64_ulp_diff
from .common import Session
from . import c02, c03, symalg, signalg
from .symalg import cplx, poly, coeff_tags, cev, ev, close, Env, NotSymbolic

LEVEL = "other"
TECHNIQUE = "symbolic expression extraction by abstract interpretation of the signing pipeline + identity testing against the specified formulas; constants vs re-derived values; constructor census"
EXPLANATION = ("Structural preconditions of the distribution claim: each stage of tree construction and of fast-Fourier sampling is interpreted on symbolic inputs, the "
               "expression computed for every output element is compared with the specification's formula (random-point identity test over the extracted expression, "
               "nothing of the crate is run), and the data flow between the stages (which value reaches which callee, in which order) is read from the call events. "
               "The statistical statement itself is NOT decided.")

TRIALS = 6


def mat(S, st, lab, n):
    usz = S.ctx.usize_ty()
    return Sq(poly(S, st, lab, n), S.ctx.const_int(st, 4, usz), {i: poly(S, st, f"{lab}{i}", n) for i in range(4)})


def session():
    S = Session()
    ctx = S.ctx
    ctx.path_mode_fns = lambda inst: inst.local
    ctx.hooks["inline"] = lambda c: "num::Complex" in c.name
    ctx.hooks["exact_collect_max"] = 8
    ctx.hooks["may_panic"] = lambda inst: False
    return S


def pit(R, rule, site, key, got_fn, want_fn, what, trials=None, positive=()):
    trials = trials or (40 if R.tier == "thorough" else TRIALS)
    """identity test: got_fn(env) vs want_fn(env) (complex or float) at `trials` random points"""
    try:
        worst = 0.0
        for t in range(trials):
            env = Env(1000 + t, positive=positive)
            w = want_fn(env)
            g = got_fn(env)
            if not close(g, w):
                R.violation(rule, site, f"computes a different formula than {what}: at a random point the extracted expression gives {g}, the specification {w}", key=key,
                            data={"trial": t, "got": str(g), "want": str(w)})
                return False
            worst = max(worst, abs(g - w))
        R.ok(rule, site, f"extracted expression equals {what} at {trials} random points (max deviation {worst:.2e})", key=key)
        return True
    except NotSymbolic as e:
        R.violation(rule, site, f"no symbolic expression could be extracted ({e}); the formula cannot be compared with {what}", key=key)
        return False


def clause_constants(R, S):
    d = derived()
    for N in (512, 1024):
        got = c02.eval_parameters(S, N)
        site = f"FalconVariant::parameters() n={N}"
        R.check(got["sigma"] is not None and f64_ulp_diff(got["sigma"], d[N]["sigma"]) <= 2, "C10-const", site + " sigma",
                f"sigma = {got['sigma']} = (1/pi) sqrt(ln(4n(1+1/eps))/2) * 1.17 sqrt(q) re-derived ({d[N]['sigma']})", f"sigma = {got['sigma']}, specification {d[N]['sigma']}", key=f"sigma|{N}")
        R.check(got["sigmin"] is not None and f64_ulp_diff(got["sigmin"], d[N]["sigmin"]) <= 2, "C10-const", site + " sigmin",
                f"sigmin = {got['sigmin']} = sigma / (1.17 sqrt q) re-derived ({d[N]['sigmin']})", f"sigmin = {got['sigmin']}, specification {d[N]['sigmin']}", key=f"sigmin|{N}")
        if got["sigma"] and got["sigmin"]:
            R.check(abs(got["sigma"] / got["sigmin"] - 1.17 * math.sqrt(Q)) < 1e-9, "C10-const", site, "sigma / sigmin = 1.17 sqrt(q): the leaf range [sigmin, sigmax] is the one the sampler is built for",
                    f"sigma/sigmin = {got['sigma'] / got['sigmin']}", key=f"ratio|{N}")
        R.check(got["sig_bound"] == math.floor((1.1 * d[N]["sigma_mp"]) ** 2 * 2 * N) if "sigma_mp" in d[N] else got["sig_bound"] == SPEC[N]["beta2"], "C10-const", site + " bound",
                "the acceptance bound is floor((1.1 sigma)^2 2n) for the same sigma", key=f"beta|{N}")


def clause_gram(R, S):
    g = S.find("ffsampling::gram")
    st = St()
    outs = S.run(g, [mat(S, st, "b", 2)], st)
    if len(outs) != 1 or type(outs[0][0]) is not Sq or not outs[0][0].head:
        R.violation("C10-gram", "gram", "no single symbolic result", key="gram|run")
        return
    r = outs[0][0]
    for i in range(2):
        for j in range(2):
            for e in range(2):
                def want(env, i=i, j=j, e=e):
                    return sum(env.c(f"b{2 * i + k}[{e}]") * env.c(f"b{2 * j + k}[{e}]").conjugate() for k in range(2))

                def got(env, i=i, j=j, e=e):
                    return cev(coeff_tags(r.head[2 * i + j])[e], env)
                pit(R, "C10-gram", f"gram: G[{i}][{j}], coefficient {e}", f"gram|{i}{j}|{e}", got, want, f"sum_k B[{i}][k] * conj(B[{j}][k])")


def clause_ldl(R, S):
    l = S.find("ffsampling::ldl")
    st = St()
    outs = S.run(l, [mat(S, st, "g", 2)], st)
    if len(outs) != 1 or type(outs[0][0]) is not Ag:
        R.violation("C10-ldl", "ldl", "no single symbolic result", key="ldl|run")
        return
    L, D = outs[0][0].f
    for e in range(2):
        # G is Hermitian positive: g00 real positive in exact arithmetic, but the formula must hold as written for any g
        def l10(env, e=e):
            return env.c(f"g2[{e}]") / env.c(f"g0[{e}]")
        pit(R, "C10-ldl", f"ldl: L[1][0], coefficient {e}", f"ldl|l10|{e}", lambda env, e=e: cev(coeff_tags(L.head[2])[e], env), l10, "g10 / g00")
        pit(R, "C10-ldl", f"ldl: D[0][0], coefficient {e}", f"ldl|d00|{e}", lambda env, e=e: cev(coeff_tags(D.head[0])[e], env), lambda env, e=e: env.c(f"g0[{e}]"), "g00")
        pit(R, "C10-ldl", f"ldl: D[1][1], coefficient {e}", f"ldl|d11|{e}", lambda env, e=e: cev(coeff_tags(D.head[3])[e], env),
            lambda env, e=e: env.c(f"g3[{e}]") - l10(env) * l10(env).conjugate() * env.c(f"g0[{e}]"), "g11 - l10 * conj(l10) * g00")


def same_poly(p, lab, n, conj=False):
    """is p the polynomial whose coefficient i is the labelled input lab[i] (or its conjugate)?"""
    try:
        tags = coeff_tags(p)
    except NotSymbolic:
        return False
    if len(tags) != n:
        return False
    for t in range(3):
        env = Env(50 + t)
        for i, tg in enumerate(tags):
            try:
                w = env.c(f"{lab}[{i}]")
                if conj:
                    w = w.conjugate()
                if not close(cev(tg, env), w):
                    return False
            except NotSymbolic:
                return False
    return True


def clause_ffldl(R, S0):
    S = session()
    ctx = S.ctx
    calls = []
    NN = [2]

    def m_ldl(E, st, fr, bi, callee, args, dest_ty):
        calls.append(("ldl", len(calls), args[0]))
        return ret1(Ag((mat(S, st, "L", NN[0]), mat(S, st, "D", NN[0]))), st)

    def m_split(E, st, fr, bi, callee, args, dest_ty):
        k = len(calls)
        v = E.load(st, args[0].key, args[0].proj)
        calls.append(("split", k, v))
        return ret1(Ag((poly(S, st, f"split{k}a", NN[0] // 2), poly(S, st, f"split{k}b", NN[0] // 2))), st)

    def m_rec(E, st, fr, bi, callee, args, dest_ty):
        k = len(calls)
        calls.append(("ffldl", k, args[0]))
        return ret1(Md("ldltree", {"from": k}), st)
    symalg.install(S, [(r"^falcon_rust::ffsampling::ldl$", m_ldl), (r"FastFft>::split_fft$", m_split), (r"^falcon_rust::ffsampling::ffldl$", m_rec)])
    f = S.find("ffsampling::ffldl")
    # ---- n = 2: leaves
    st = St()
    outs = S.run(f, [mat(S, st, "g", 2)], st)
    ok = len(outs) == 1 and type(outs[0][0]) is En and set(outs[0][0].vs) == {0}
    R.check(ok, "C10-ffldl", "ffldl n=2", "returns a Branch", f"returns {outs[0][0] if outs else None}", key="ffldl2|shape")
    if ok:
        r, s2 = outs[0]
        ell, left, right = r.vs[0]
        R.check(len(calls) == 1 and calls[0][0] == "ldl" and all(same_poly(calls[0][2].head[i], f"g{i}", 2) for i in range(4)), "C10-ffldl", "ffldl n=2 -> ldl", "ldl is applied to the argument matrix",
                f"calls: {[c[:2] for c in calls]}", key="ffldl2|ldl")
        R.check(same_poly(ell, "L2", 2), "C10-ffldl", "ffldl n=2 branch value", "the branch stores l10 (= L[1][0])", key="ffldl2|ell")
        for nm, b, lab in (("left", left, "D0"), ("right", right, "D3")):
            v = None
            if type(b) is Md and b.kind == "box":
                v = S.E.load(s2, b.d["ptr"].key, b.d["ptr"].proj)
            okl = type(v) is En and set(v.vs) == {1} and same_poly(v.vs[1][0], lab, 2)
            R.check(okl, "C10-ffldl", f"ffldl n=2 {nm} child", f"Leaf holding the two coefficients of {'d00' if lab == 'D0' else 'd11'}", f"{nm} child is {v}", key=f"ffldl2|{nm}")
    # ---- n = 4: recursion
    del calls[:]
    NN[0] = 4
    st = St()
    outs = S.run(f, [mat(S, st, "g", 4)], st)
    ok = len(outs) == 1 and type(outs[0][0]) is En and set(outs[0][0].vs) == {0}
    R.check(ok, "C10-ffldl", "ffldl n=4", "returns a Branch", key="ffldl4|shape")
    if ok:
        r, s2 = outs[0]
        ell, left, right = r.vs[0]
        R.check(same_poly(ell, "L2", 4), "C10-ffldl", "ffldl n=4 branch value", "the branch stores l10", key="ffldl4|ell")
        splits = [c for c in calls if c[0] == "split"]
        recs = [c for c in calls if c[0] == "ffldl"]
        oks = len(splits) == 2 and same_poly(splits[0][2], "D0", 4) and same_poly(splits[1][2], "D3", 4)
        R.check(oks, "C10-ffldl", "ffldl n=4 splits", "d00 and d11 are split (in this order)", f"split calls: {len(splits)}", key="ffldl4|split")
        if oks and len(recs) == 2:
            for (nm, child, rec, sp) in (("left", left, recs[0], splits[0]), ("right", right, recs[1], splits[1])):
                k = sp[1]
                m = rec[2]
                okm = (type(m) is Sq and m.head and same_poly(m.head[0], f"split{k}a", 2) and same_poly(m.head[1], f"split{k}b", 2)
                       and same_poly(m.head[2], f"split{k}b", 2, conj=True) and same_poly(m.head[3], f"split{k}a", 2))
                R.check(okm, "C10-ffldl", f"ffldl n=4 {nm} recursion argument", "[d0, d1, conj(d1), d0] of the split diagonal entry", key=f"ffldl4|{nm}|arg")
                v = S.E.load(s2, child.d["ptr"].key, child.d["ptr"].proj) if type(child) is Md and child.kind == "box" else None
                R.check(type(v) is Md and v.kind == "ldltree" and v.d["from"] == rec[1], "C10-ffldl", f"ffldl n=4 {nm} child", "is the tree returned by that recursive call", f"child is {v}", key=f"ffldl4|{nm}|child")
        else:
            R.violation("C10-ffldl", "ffldl n=4", f"expected two recursive calls, saw {len(recs)}", key="ffldl4|recs")
    R.analysed.setdefault("unsupported", []).extend(S.unsupported[:5])


def clause_normalize(R, S):
    ctx = S.ctx
    nt = S.find("ffsampling::normalize_tree")
    usz = ctx.usize_ty()
    st = St()
    vec = Sq(cplx("e"), ctx.const_int(st, 2, usz), {0: cplx("leaf0"), 1: cplx("leaf1")})
    S.cell(st, "tree", En({1: (vec,)}), mut=True)
    outs = S.run(nt, [Pt(("h", "tree"), (), True), Fl(1.0, 200.0, False, "sigma")], st)
    if len(outs) != 1:
        R.violation("C10-normalize", "normalize_tree (leaf)", f"{len(outs)} outcomes", key="norm|run")
    else:
        _, s2 = outs[0]
        v = s2.store[("h", "tree")]
        okv = type(v) is En and set(v.vs) == {1} and type(v.vs[1][0]) is Sq and v.vs[1][0].head
        if not okv:
            R.violation("C10-normalize", "normalize_tree (leaf)", f"leaf after the call: {v}", key="norm|shape")
        else:
            tg = coeff_tags(v.vs[1][0])
            pit(R, "C10-normalize", "normalize_tree leaf[0].re", "norm|re", lambda env: ev(tg[0][0], env), lambda env: env("sigma") / math.sqrt(env("leaf0.re")), "sigma / sqrt(leaf[0].re)", positive=("leaf0.re",))
            for nm, t in (("leaf[0].im", tg[0][1]), ("leaf[1].re", tg[1][0]), ("leaf[1].im", tg[1][1])):
                R.check(t == 0.0, "C10-normalize", f"normalize_tree {nm}", "set to zero", f"{nm} is {t}", key=f"norm|{nm}")
    # branch: every leaf of a small tree is normalised with the same sigma, whether the function recurses or walks the tree
    # with an explicit stack (recursive calls are followed three levels deep)
    ctx.hooks["rec_depth"] = 4

    def leafcell(st, tag):
        v = Sq(cplx("e"), ctx.const_int(st, 2, usz), {0: cplx(tag + "0"), 1: cplx(tag + "1")})
        return S.cell(st, tag, En({1: (v,)}), mut=True)

    def box(p):
        return Md("box", {"ptr": p})
    st = St()
    la, lb_, lc = leafcell(st, "A"), leafcell(st, "B"), leafcell(st, "C")
    inner = S.cell(st, "inner", En({0: (poly(S, st, "ell2", 2), box(la), box(lb_))}), mut=True)
    S.cell(st, "tree", En({0: (poly(S, st, "ell", 4), box(inner), box(lc))}), mut=True)
    outs = S.run(nt, [Pt(("h", "tree"), (), True), Fl(1.0, 200.0, False, "sigma")], st)
    ctx.hooks.pop("rec_depth", None)
    okb, whyb = len(outs) >= 1, f"{len(outs)} outcomes"
    for _, s2 in outs:
        for tag in ("A", "B", "C"):
            v = s2.store.get(("h", tag))
            try:
                tg = coeff_tags(v.vs[1][0])
                for t_ in range(3):
                    env = Env(40 + t_, positive=(tag + "0.re",))
                    if not close(ev(tg[0][0], env), env("sigma") / math.sqrt(env(tag + "0.re"))) or tg[0][1] != 0.0 or tg[1] != (0.0, 0.0):
                        okb, whyb = False, f"leaf {tag} after the call is {tg}"
            except (NotSymbolic, AttributeError, KeyError, TypeError, IndexError) as ex:
                okb, whyb = False, f"leaf {tag} after the call: {v} ({ex})"
    R.check(okb, "C10-normalize", "normalize_tree (tree of depth 3)", "all three leaves (two levels down and one level down) are normalised with the unchanged sigma",
            whyb, key="norm|branch")


def clause_from_b0(R, S0, rule="C10-from_b0"):
    for N in (512, 1024):
        S = session()
        ctx = S.ctx
        calls = []

        def m_fft(E, st, fr, bi, callee, args, dest_ty):
            v = E.load(st, args[0].key, args[0].proj)
            k = len(calls)
            calls.append(("fft", k, v, st.copy()))
            return ret1(poly(S, st, f"fft{k}", 2), st)

        def m_gram(E, st, fr, bi, callee, args, dest_ty):
            k = len(calls)
            calls.append(("gram", k, args[0], None))
            return ret1(mat(S, st, f"gram{k}_", 2), st)

        def m_ffldl(E, st, fr, bi, callee, args, dest_ty):
            k = len(calls)
            calls.append(("ffldl", k, args[0], None))
            return ret1(Md("ldltree", {"from": k, "norm": None}), st)

        def m_norm(E, st, fr, bi, callee, args, dest_ty):
            k = len(calls)
            t = E.load(st, args[0].key, args[0].proj)
            calls.append(("normalize_tree", k, (t, args[1]), None))
            if type(t) is Md and t.kind == "ldltree":
                E.store_at_strong(st, args[0].key, args[0].proj, Md("ldltree", dict(t.d, norm=(args[1].lo, args[1].hi))))
            return ret1(Ag(()), st)
        symalg.install(S, [(r"FastFft>::fft$", m_fft), (r"^falcon_rust::ffsampling::gram$", m_gram), (r"^falcon_rust::ffsampling::ffldl$", m_ffldl),
                           (r"^falcon_rust::ffsampling::normalize_tree$", m_norm)])
        fb = S.find(f"falcon::SecretKey::<{N}>::from_b0")
        st = St()
        i16 = S.ty("i16")
        usz = ctx.usize_ty()

        def ipoly(lab):
            return Ag((Sq(ctx.top_int(st, i16, taint=frozenset({lab})), ctx.const_int(st, 2, usz), {i: ctx.top_int(st, i16, taint=frozenset({f"{lab}[{i}]"})) for i in range(2)}),))
        b0 = Sq(ipoly("b"), ctx.const_int(st, 4, usz), {i: ipoly(f"b{i}") for i in range(4)})
        outs = S.run(fb, [b0], st)
        site = f"SecretKey::<{N}>::from_b0"
        sigma = SPEC[N]["sigma"]
        if len(outs) < 1:
            R.violation(rule, site, "no return found", key=f"fb|{N}|run")
            continue
        ffts = [c for c in calls if c[0] == "fft"]
        okf = len(ffts) == 4
        if okf:
            for i, c in enumerate(ffts):
                try:
                    tags = coeff_tags(c[2])
                    for e, (re_, im_) in enumerate(tags):
                        okf = okf and isinstance(re_, tuple) and re_[0] == "int" and c[3].taint.get(re_[1]) == frozenset({f"b{i}[{e}]"}) and im_ == 0.0
                except NotSymbolic:
                    okf = False
        R.check(okf, rule, site + " -> fft", "the four basis polynomials, embedded as (x, 0), are transformed in order", f"fft calls: {len(ffts)}", key=f"fb|{N}|fft")
        gr = [c for c in calls if c[0] == "gram"]
        okg = len(gr) == 1 and okf and type(gr[0][2]) is Sq and gr[0][2].head and all(same_poly(gr[0][2].head[i], f"fft{ffts[i][1]}", 2) for i in range(4))
        R.check(okg, rule, site + " -> gram", "gram receives the four transformed polynomials in basis order", key=f"fb|{N}|gram")
        fl = [c for c in calls if c[0] == "ffldl"]
        okl = len(fl) == 1 and len(gr) == 1 and type(fl[0][2]) is Sq and fl[0][2].head and all(same_poly(fl[0][2].head[i], f"gram{gr[0][1]}_{i}", 2) for i in range(4))
        R.check(okl, rule, site + " -> ffldl", "ffldl receives the Gram matrix", key=f"fb|{N}|ffldl")
        nm = [c for c in calls if c[0] == "normalize_tree"]
        okn = len(nm) == 1 and len(fl) == 1 and type(nm[0][2][0]) is Md and nm[0][2][0].kind == "ldltree" and nm[0][2][0].d["from"] == fl[0][1]
        sg = nm[0][2][1] if nm else None
        R.check(okn and type(sg) is Fl and sg.lo == sg.hi == sigma, rule, site + " -> normalize_tree", f"the tree returned by ffldl is normalised with sigma = {sigma}",
                f"normalize_tree calls: {[(str(c[2][0]), str(c[2][1])) for c in nm]}, expected sigma {sigma}", key=f"fb|{N}|norm")
        okr = True
        for r, s2 in outs:
            okr = okr and type(r) is Ag and len(r.f) == 2 and type(r.f[1]) is Md and r.f[1].kind == "ldltree" and r.f[1].d.get("norm") == (sigma, sigma)
            if okr:
                bb = r.f[0]
                okr = type(bb) is Sq and bb.head and all(type(bb.head[i]) is Ag and s2.taint.get(bb.head[i].f[0].head[0].vid) == frozenset({f"b{i}[0]"}) for i in range(4))
        R.check(okr, rule, site + " result", "every returned key holds the unchanged basis and the normalised tree", f"returned: {[str(r)[:200] for r, _ in outs]}", key=f"fb|{N}|ret")
        R.analysed.setdefault("unsupported", []).extend(S.unsupported[:5])


def clause_ffsampling(R, S0):
    S = session()
    ctx = S.ctx
    ffs = S.find("ffsampling::ffsampling")
    usz = ctx.usize_ty()
    events = []

    def obs(ev_, **kw):
        if ctx.quiet:
            return
        if ev_ == "enter" and "samplerz::sampler_z" in kw["callee"].name:
            events.append(("enter", kw["args"]))
        if ev_ == "ret" and kw["callee"] is not None and "samplerz::sampler_z" in kw["callee"].name:
            events.append(("ret", kw["value"]))
    ctx.observers.append(obs)
    ctx.no_inline = lambda inst: "samplerz::sampler_z" in inst.name

    def params(st):
        return S.cell(st, "params", Ag((ctx.top_int(st, usz), Fl(1, 200, False, "p.sigma"), Fl(1, 2, False, "p.sigmin"), ctx.top_int(st, S.ty("i64")), ctx.top_int(st, usz))))
    # ---- leaf
    st = St()
    vec = Sq(cplx("e"), ctx.const_int(st, 2, usz), {0: cplx("leaf0"), 1: cplx("leaf1")})
    tree = S.cell(st, "tree", En({1: (vec,)}))
    t = S.cell(st, "t", Ag((poly(S, st, "t0", 1), poly(S, st, "t1", 1))))
    rng = S.cell(st, "rng", Md("rng", {"origin": "param", "site": None}), mut=True)
    outs = S.run(ffs, [t, tree, params(st), rng], st)
    ent = [e[1] for e in events if e[0] == "enter"]
    rets = [e[1] for e in events if e[0] == "ret"]
    site = "ffsampling (leaf)"
    if len(ent) != 2 or len(rets) != 2 or len(outs) != 1:
        R.violation("C10-ffsampling", site, f"expected exactly two sampler calls and one outcome, saw {len(ent)} calls, {len(outs)} outcomes", key="ffs|leaf|calls")
    else:
        for i, a in enumerate(ent):
            tg = [(x.tag if x.tag is not None else (x.lo if x.lo == x.hi else None)) if type(x) is Fl else None for x in a[:3]]
            R.check(tg == [f"t{i}[0].re", "leaf0.re", "p.sigmin"], "C10-ffsampling", f"{site} sampler call {i}", f"sampler_z(mu = t{i}[0].re, sigma' = leaf[0].re, sigmin = parameters.sigmin, ..)",
                    f"arguments are {tg}", key=f"ffs|leaf|args{i}")
            R.check(type(a[3]) is Pt and a[3].key == ("h", "rng"), "C10-ffsampling", f"{site} sampler call {i} generator", "draws from the generator parameter", key=f"ffs|leaf|rng{i}")
        r, s2 = outs[0]
        okr = type(r) is Ag and len(r.f) == 2
        if okr:
            for i in range(2):
                try:
                    tg = coeff_tags(r.f[i])
                    okr = okr and len(tg) == 1 and tg[0][0] == ("int", rets[i].vid) and tg[0][1] == 0.0
                except (NotSymbolic, AttributeError):
                    okr = False
        R.check(okr, "C10-ffsampling", site + " result", "returns ((z0, 0), (z1, 0)): exactly the two sampler outputs, in order — no rounding shortcut", f"result {str(r)[:300]}", key="ffs|leaf|ret")
    ctx.observers.remove(obs)
    # ---- branch
    calls = []
    NN = 2

    def m_split(E, st, fr, bi, callee, args, dest_ty):
        k = len(calls)
        calls.append(("split", k, E.load(st, args[0].key, args[0].proj)))
        return ret1(Ag((poly(S, st, f"split{k}a", NN), poly(S, st, f"split{k}b", NN))), st)

    def m_merge(E, st, fr, bi, callee, args, dest_ty):
        k = len(calls)
        calls.append(("merge", k, [E.load(st, a.key, a.proj) for a in args]))
        return ret1(poly(S, st, f"merge{k}", NN), st)

    def m_rec(E, st, fr, bi, callee, args, dest_ty):
        k = len(calls)
        calls.append(("ffsampling", k, E.load(st, args[0].key, args[0].proj), args[1:]))
        return ret1(Ag((poly(S, st, f"z{k}a", NN), poly(S, st, f"z{k}b", NN))), st)
    symalg.install(S, [(r"FastFft>::split_fft$", m_split), (r"FastFft>::merge_fft$", m_merge), (r"^falcon_rust::ffsampling::ffsampling$", m_rec)])
    st = St()
    l = S.cell(st, "left", Top(None))
    r_ = S.cell(st, "right", Top(None))
    tree = S.cell(st, "tree", En({0: (poly(S, st, "ell", NN), Md("box", {"ptr": l}), Md("box", {"ptr": r_}))}))
    t = S.cell(st, "t", Ag((poly(S, st, "t0", NN), poly(S, st, "t1", NN))))
    rng = S.cell(st, "rng", Md("rng", {"origin": "param", "site": None}), mut=True)
    outs = S.run(ffs, [t, tree, params(st), rng], st)
    site = "ffsampling (branch)"
    kinds = [c[0] for c in calls]
    if kinds != ["split", "ffsampling", "merge", "split", "ffsampling", "merge"] or len(outs) != 1:
        R.violation("C10-ffsampling", site, f"expected split, recurse, merge, split, recurse, merge; saw {kinds} ({len(outs)} outcomes)", key="ffs|br|seq")
    else:
        sp1, rc1, mg1, sp2, rc2, mg2 = calls
        R.check(same_poly(sp1[2], "t1", NN), "C10-ffsampling", site + " first split", "t1 is split first", key="ffs|br|split1")

        def rec_ok(rc, sp, child):
            tt = rc[2]
            a = rc[3]
            return (type(tt) is Ag and len(tt.f) == 2 and same_poly(tt.f[0], f"split{sp[1]}a", NN) and same_poly(tt.f[1], f"split{sp[1]}b", NN)
                    and type(a[0]) is Pt and a[0].key == ("h", child) and type(a[1]) is Pt and a[1].key == ("h", "params") and type(a[2]) is Pt and a[2].key == ("h", "rng"))
        R.check(rec_ok(rc1, sp1, "right"), "C10-ffsampling", site + " first recursion", "the right child is sampled first, on the split of t1, with the same parameters and generator", key="ffs|br|rec1")
        R.check(same_poly(mg1[2][0], f"z{rc1[1]}a", NN) and same_poly(mg1[2][1], f"z{rc1[1]}b", NN), "C10-ffsampling", site + " first merge", "z1 = merge of the right child's result", key="ffs|br|merge1")
        z1 = f"merge{mg1[1]}"
        try:
            tg = coeff_tags(sp2[2])
            for e in range(NN):
                pit(R, "C10-ffsampling", f"{site} t0' coefficient {e}", f"ffs|br|t0p|{e}", lambda env, e=e: cev(tg[e], env),
                    lambda env, e=e: env.c(f"t0[{e}]") + (env.c(f"t1[{e}]") - env.c(f"{z1}[{e}]")) * env.c(f"ell[{e}]"), "t0 + (t1 - z1) * l10")
        except NotSymbolic as ex:
            R.violation("C10-ffsampling", site + " t0'", f"argument of the second split has no symbolic form ({ex})", key="ffs|br|t0p")
        R.check(rec_ok(rc2, sp2, "left"), "C10-ffsampling", site + " second recursion", "the left child is sampled on the split of t0', with the same parameters and generator", key="ffs|br|rec2")
        R.check(same_poly(mg2[2][0], f"z{rc2[1]}a", NN) and same_poly(mg2[2][1], f"z{rc2[1]}b", NN), "C10-ffsampling", site + " second merge", "z0 = merge of the left child's result", key="ffs|br|merge2")
        r, s2 = outs[0]
        okr = type(r) is Ag and len(r.f) == 2 and same_poly(r.f[0], f"merge{mg2[1]}", NN) and same_poly(r.f[1], z1, NN)
        R.check(okr, "C10-ffsampling", site + " result", "returns (z0, z1)", key="ffs|br|ret")
    R.analysed.setdefault("unsupported", []).extend(S.unsupported[:5])


def clause_premises(R):
    """premises the other clauses rest on, decided under C09 / C04 and shared here as rule instances: the base
    sampler's table and exponential constants (a typo there changes every leaf sample) and the Gram-Schmidt norm
    that key generation bounds (the leaf range)"""
    from . import c09, c04
    from fv.oracle import RCDT, FACCT_C
    S = Session()
    prog = S.prog
    base = S.find("samplerz::base_sampler")
    tabs = [c09.array_const(prog, c, 16) for t, c in c09.consts_in(prog, base, lambda t: t.tag in ("Array", "Ref") and "u128; 18" in t.s)]
    tabs = [t for t in tabs if t and len(t) == 18]
    R.check(len(tabs) >= 1 and all(t == RCDT for t in tabs), "C10-premise", "base_sampler RCDT", "the 18 table entries equal the specification's Table 3.1 (shared with C09)",
            f"table differs from the specification at indices {[i for i in range(18) if tabs and tabs[0][i] != RCDT[i]]}" if tabs else "no [u128; 18] constant found", key="prem|rcdt")
    aexp = S.find("samplerz::approx_exp")
    ctab = [c09.array_const(prog, c, 8) for t, c in c09.consts_in(prog, aexp, lambda t: (t.tag in ("Array", "Ref")) and "u64; 13" in t.s)]
    ctab = [t for t in ctab if t and len(t) == 13]
    R.check(len(ctab) >= 1 and all(t == FACCT_C for t in ctab), "C10-premise", "approx_exp constants", "the 13 polynomial coefficients equal the specification's (shared with C09)", key="prem|facct")
    c04.clause_gs_norm(R, rule="C10-premise")
    # the integer sampler under every leaf: all rule instances of C09 (wiring of sampler_z, base sampler, exponential, their
    # integer asserts) except its recorded known findings, which stay C09's
    from fv.harness import Result, known_matcher
    R9 = Result("C09", R.tier)
    c09.run(R9)
    mk, _ = known_matcher("C09")
    bad9 = [o for o in R9.obl if o["status"] == "violation" and mk(o) is None]
    ff = [(n, m, f) for (n, m, f) in R9.floors if m < f]
    R.check(not bad9 and not ff, "C10-premise", "integer sampler (rule instances of C09)",
            f"{sum(1 for o in R9.obl if o['status'] == 'discharged')} rule instances on sampler_z / base_sampler / ber_exp / approx_exp hold",
            "; ".join(f"[{o['rule']}] {o['site']}: {o['detail']}"[:300] for o in bad9[:3]) + (f" floors {ff}" if ff else ""), key="prem|sampler")


def run(R):
    R.trust("rustc CTFE + MIR (nightly)", "E0 fact extractor", "E2 abstract interpreter and model table", "identity testing at random points (error probability negligible for the degree-<=6 rational expressions involved)",
            "Falcon specification v1.2 formulas (Algorithms 8-11) and constants re-derived with mpmath")
    S = session()
    clause_constants(R, S)
    clause_gram(R, S)
    clause_ldl(R, S)
    clause_ffldl(R, S)
    S2 = session()
    clause_normalize(R, S2)
    clause_from_b0(R, S)
    c03.constructor_census(Session(), R, rule="C10-census")
    clause_ffsampling(R, S)
    signalg.clause_sign(R, "C10-sign")
    clause_premises(R)
    R.analysed.setdefault("unsupported", []).extend(S.unsupported[:5])
    R.floor("rule instances", len(R.obl), 60)
