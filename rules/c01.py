"""C01 — every honest signature verifies (decided clauses).

 (2) signer and verifier apply the same acceptance predicate: sign keeps a candidate iff its squared norm
     is <= floor(beta^2), verify accepts iff X <= floor(beta^2) (same constant, same direction);
 (3) the signer's byte budget is the reader's slice: compress(.., sig_bytelen(N) - 41) produces a vector of
     exactly that many bytes, which is what Signature::from_bytes stores and what verify hands to
     decompress(.., N); and the salt that is returned is the salt that was hashed (one and the same draw);
 (4) the message only feeds the hash: no branch condition or index in the crate's code depends on message
     bytes or on the message length, in sign and in verify;
 (5) schedule independence: keys/signatures are Send + Sync, sign/verify take shared references, the crate
     has no unsafe code, no static, no thread-local (type-level witnesses + lint + census), and the only
     generator in sign is the per-call thread_rng() handle — so concurrent calls behave as their sequential
     selves.
 (1a) the algebra of clause 1: for EVERY output z of the sampler, sign's candidate is s = (t - z) B'' with
     t = (c, 0) B''^-1 the very target handed to ffsampling, the rows of B'' lie in the lattice verify tests
     against (h = g/f), B'' B''* is the Gram matrix the key's tree was built from, the norm that is compared
     covers both components, and the emitted component is the one verify recomputes the other from;
     verify recomputes ntt(c) - ntt(s2) ntt(h) exactly (rules/signalg.py: identity testing / residue classes);
NOT decided (rest of clause 1): floating-point error, and that ffSampling's z is close enough to t for the
candidate to be inside the ball (termination of the retry loop)."""
from fv.absint import St, Pt, Ag, I, Sq, En, Md, Fl
from fv.oracle import SPEC
from fv.witness import run_witnesses
from .common import Session
from . import c02, c03, skeleton, signalg

LEVEL = "other"
TECHNIQUE = "predicate agreement sign/verify, budget agreement, message-label flow, Send/Sync + no-unsafe/no-static witnesses"
EXPLANATION = ("Abstract runs of sign (numerical callees opaque) and verify with labelled inputs give the two acceptance predicates, the compression "
               "budget, the identity of the returned and the hashed salt, and every branch/index that a message byte can reach; compile-pass/compile-fail "
               "witnesses and rustc's unsafe_code lint give the concurrency clause. Clause 1 (lattice algebra + floating point) is not decided.")


def run(R):
    S = skeleton.session()
    ctx, prog = S.ctx, S.prog
    R.trust("rustc type checker (Send/Sync, borrow rules), rustc unsafe_code lint", "rustc MIR (nightly)", "E0 fact extractor", "E2 abstract interpreter and models",
            "rand::ThreadRng contract")
    R.assume("clause 1 is decided as exact algebra only (1a); floating-point error and termination of the retry loop are NOT decided")
    signalg.clause_sign(R, "C01-coset")
    signalg.clause_verify(R, "C01-verify-alg")
    # premises shared with C07 and C04 (as rule instances of this property, so that its own check reports them): the reader
    # accepts what the writer can produce — long unary runs, an encoding that fills its budget — and a generated key has an
    # invertible f (otherwise h = g/f is not a public key for the secret basis and nothing it signs verifies)
    from . import c07, c04
    from fv.harness import Result
    c07.clause_fit_partitions(R, rule="C01-codec")
    R4 = Result("C04", R.tier)
    c04.clause_gates(R4, long_probes=False)
    bad4 = [o for o in R4.obl if o["status"] == "violation" and o["rule"] in ("C04-gate", "C04-flow")]
    R.check(not bad4, "C01-key", "ntru_gen gates (rule instances of C04)", f"{sum(1 for o in R4.obl if o['status'] == 'discharged')} rule instances on the invertibility / norm gates and the flow of (f, g, F, G) hold",
            "; ".join(f"[{o['rule']}] {o['site']}: {o['detail']}"[:300] for o in bad4[:3]), key="prem|key")
    for N in (512, 1024):
        spec = SPEC[N]
        inst = S.find(f"falcon::sign::<{N}>")
        branches, comp, msg_use, ent, absorbed = [], [], [], [], []

        def obs(ev, **kw):
            if ctx.quiet:
                return
            fr = kw.get("frame")
            stt = kw.get("st")
            if ev == "branch":
                d = kw["discr"]
                labs = stt.taint.get(d.vid, set())
                if ("m" in labs or "mlen" in labs):
                    msg_use.append(("branch", fr.inst.name, fr.body.span_of(kw["bb"])))
                p = stt.prov.get(d.vid)
                if fr.inst is inst and p and p[0] == "fcmp":
                    branches.append((p[2], fr.body.span_of(kw["bb"])))
            elif ev == "assert" and kw["kind"] == "BoundsCheck":
                try:
                    idx = S.E.operand(stt, fr, kw["msg"]["index"])
                    labs = stt.taint.get(idx.vid, set()) if type(idx) is I else set()
                    if "m" in labs or "mlen" in labs:
                        msg_use.append(("index", fr.inst.name, fr.body.span_of(kw["bb"])))
                except Exception:
                    pass
            elif ev == "enter" and fr.inst is inst and kw["callee"].name == "falcon_rust::encoding::compress":
                a = kw["args"]
                comp.append(stt.const(a[1]) if type(a[1]) is I else None)
            elif ev == "entropy":
                ent.append(kw["what"])
            elif ev == "absorb":
                absorbed.append(skeleton.labels_of(stt, kw["seq"])[0])
        ctx.observers.append(obs)
        st = St()
        u8 = S.ty("u8")
        mlen = ctx.mk_int(st, 0, 1 << 40, ctx.usize_ty(), taint=frozenset({"mlen"}))
        m = S.cell(st, "m", Sq(ctx.top_int(st, u8, taint=frozenset({"m"})), mlen))
        sk = S.cell(st, "sk", skeleton.secret_key(S, st, N))
        outs = S.run(inst, [m, sk], st)
        site = f"sign::<{N}>"
        # (2) signer's predicate
        cands = []
        for (op, ta, tb, ia, ib), where in branches:
            if ib[0] == ib[1] == float(spec["beta2"]):
                cands.append((op, "X", where))
            elif ia[0] == ia[1] == float(spec["beta2"]):
                cands.append(({"Lt": "Gt", "Le": "Ge", "Gt": "Lt", "Ge": "Le"}.get(op, op), "X", where))
        retry_gt = [c for c in cands if c[0] == "Gt"]
        keep_le = [c for c in cands if c[0] == "Le"]
        R.check(len(cands) >= 1 and (retry_gt or keep_le) and len(retry_gt) + len(keep_le) == len(cands), "C01-pred", site,
                f"the signer compares the squared norm with {spec['beta2']} and keeps the candidate iff norm <= bound ({cands[0][2] if cands else ''})",
                f"signer-side comparisons against the bound: {[(c[0], c[2]) for c in cands]} — expected `norm > bound => retry` (keep iff norm <= bound, as verify accepts)",
                key=f"signpred|{N}", data={"found": [(c[0], c[2]) for c in cands]})
        # (3) budget and salt identity
        R.check(comp and all(c == spec["sig_bytelen"] - 41 for c in comp), "C01-budget", site, f"compress is given a budget of sig_bytelen - 41 = {spec['sig_bytelen'] - 41} bytes",
                f"compress budgets observed: {comp}, reader expects {spec['sig_bytelen'] - 41}", key=f"budget|{N}")
        if outs:
            sig, rst = outs[0]
            body = sig.f[1] if type(sig) is Ag and len(sig.f) == 2 else None
            ln = rst.itv[body.len.vid] if type(body) is Sq else None
            R.check(ln == (spec["sig_bytelen"] - 41,) * 2, "C01-budget", site + " (returned body)", f"the returned signature body has exactly {spec['sig_bytelen'] - 41} bytes",
                    f"returned body length {ln}", key=f"bodylen|{N}")
            salt = sig.f[0] if type(sig) is Ag else None
            slabs = {l for l in skeleton.labels_of(rst, salt)[0] if isinstance(l, tuple) and l[0] == "entropy"} if type(salt) is Sq else set()
            hlabs = set()
            for a in absorbed:
                hlabs |= {l for l in a if isinstance(l, tuple) and l[0] == "entropy"}
            R.check(slabs and slabs == hlabs, "C01-salt", site, "the salt returned in the signature is the very draw that was hashed",
                    f"returned salt draws {sorted(map(str, slabs))} vs hashed draws {sorted(map(str, hlabs))}", key=f"saltid|{N}")
        else:
            R.violation("C01-budget", site, "abstract run of sign found no return", key=f"ret|{N}")
        # (4) message flow in sign
        R.check(not msg_use, "C01-msg", site, "no branch or index in the signer depends on message bytes or message length",
                f"message-dependent control/indexing: {msg_use[:4]}", key=f"msgsign|{N}")
        ctx.observers.remove(obs)
        # verify side: predicate (shared with C02) and message flow
        S2 = Session()
        c03.setup(S2, R.tier, R)
        vmsg = []

        def obs2(ev, **kw):
            if S2.ctx.quiet:
                return
            if ev == "branch":
                labs = kw["st"].taint.get(kw["discr"].vid, set())
                if "m" in labs or "mlen" in labs:
                    vmsg.append((kw["frame"].inst.name, kw["frame"].body.span_of(kw["bb"])))
        S2.ctx.observers.append(obs2)
        outs, rets, sums, dec, obls = c02.run_verify_labelled(S2, N, quick1024=(N == 1024 and R.tier == "quick"))
        accept = None
        for v, stt, where in rets:
            if type(v) is I:
                a = c02.accept_set(stt, v)
                if a and a[0] == "le":
                    accept = (a[2], where)
        R.check(accept is not None and accept[0] == spec["beta2"], "C01-pred", f"verify::<{N}>", f"verify accepts iff X <= {spec['beta2']}: the same half-line the signer keeps",
                f"verify's accepted set is X <= {accept[0] if accept else '?'} but the signer keeps norms up to {spec['beta2']}", key=f"verpred|{N}")
        okd = len(dec) == 1 and dec[0][1] == N
        R.check(okd, "C01-budget", f"verify::<{N}>", f"verify decompresses the stored body with n = {N}", f"decompress calls {dec}", key=f"vdec|{N}")
        # hash_to_point's own loop is driven by the XOF output, which carries the message label by design: exclude it
        R.check(not vmsg, "C01-msg", f"verify::<{N}>", "no branch in the verifier depends on raw message bytes or on the message length (only on the hash output)",
                f"message-dependent branches: {vmsg[:4]}", key=f"msgver|{N}")
    # (5) schedule independence
    wit, out = run_witnesses()
    for name, kind in (("SendSync", "compile"), ("SendSyncTwin", "compile fail"), ("SignShared", "compile"), ("PrivateModule", "compile fail"), ("PrivateModuleTwin", "compile")):
        ok = name in wit and wit[name][0] and wit[name][1] == kind
        R.check(ok, "C01-witness", f"witness {name}", f"{kind} witness holds", f"witness {name} did not behave as `{kind}`: {wit.get(name)}", key=f"wit|{name}")
    R.floor("witnesses run", len(wit), 8)
    uo = [l for l in (prog.lints or []) if l["code"] == "unsafe_code"]
    R.check(prog.lints is not None and not uo, "C01-nounsafe", "crate falcon_rust", "no unsafe code (rustc unsafe_code lint)", f"unsafe code at {[(l['file'], l['line']) for l in uo[:3]]}", key="nounsafe")
    tls = [(i.name, e.get("item") or e.get("name")) for i in prog.inst if i.local for e in i.edges if e["k"] == "tls" or (e["k"] == "static" and e["name"].startswith("falcon_rust"))]
    R.check(not prog.statics and not tls, "C01-nostatic", "crate falcon_rust", "no static / thread-local state in the crate", f"statics {prog.statics} {tls[:3]}", key="nostatic")
    R.analysed["unsupported"] = S.unsupported[:10]
