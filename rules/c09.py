"""C09 — the integer Gaussian sampler (decided clauses).

 (1) constants: RCDT (18 x 72-bit) equals the specification's Table 3.1 and PQClean's dist[] recombined;
     approx_exp's 13 coefficients equal the FACCT constants (spec and PQClean); 1/(2*sigma_max^2) and ln 2
     are within 1 ulp of the re-derived values; gen_poly's sigma* = 1.17*sqrt(q/8192);
 (2) base_sampler: u is the big-endian value of the 9 bytes zero-extended, ranging over [0, 2^72); the result
     is the number of table entries r with u < r (strict, u on the left), over all 18 entries;
 (3) sampler_z wiring: ccs = sigma_min * (1/sigma), the exponent uses dss = 1/(2 sigma^2), r = mu - floor(mu)
     and 1/(2 sigma_max^2); the value is returned only on a path where ber_exp answered true; the three draws
     per round come from the generator parameter (9, 1 and 7 bytes);
 (4) integer skeleton: every overflow / bounds / shift assert in sampler_z, base_sampler, ber_exp, approx_exp is an
     obligation, for every centre mu, sigma' in [sigma_min, 1.8205], every byte stream; approx_exp is total on its
     documented domain (x in [0, ln 2], ccs in [0, 1]); two obligations fail and are genuine (known findings K1, K2).
Not decided: that approx_exp / ber_exp equal the reference on all inputs; termination; the output distribution."""
import math
import struct

from fv.absint import St, Pt, Ag, I, Sq, En, Md, Fl, iter_ints
from fv.mir import kind_of
from fv.oracle import RCDT, FACCT_C, SIGMA_MAX, SPEC, derived, pqclean, f64_ulp_diff
from fv.facts import const_of
from .common import Session, record_obligations
from . import c03

LEVEL = "other"
TECHNIQUE = "CTFE constants vs spec/PQClean; abstract interpretation of base_sampler / ber_exp / approx_exp / sampler_z with symbolic float tags and bounded loop unrolling"
EXPLANATION = ("Tables are read from the compiled constants. base_sampler's 18 comparisons are observed individually; sampler_z's floating-point wiring is "
               "followed with symbolic tags on the parameters; all integer asserts are obligations. Equality of the fixed-point exponential with the reference on "
               "every input and the distribution itself are not decided.")
ASSUME_R = ("ber_exp passes r = x - ln2*floor(x/ln2) to approx_exp: r lies in [0, ln 2] by construction (a floating-point remainder; relational, outside the "
            "interval domain); approx_exp is proved total on that domain separately")


def consts_in(prog, inst, want):
    """constants of a given kind in a body: want(tyinfo) -> bool; returns list of decoded values"""
    out = []

    def visit(o):
        if isinstance(o, dict):
            if "Constant" in o and isinstance(o["Constant"], dict) and "const_" in o["Constant"]:
                c = o["Constant"]["const_"]
                t = prog.ty(c["ty"])
                if want(t):
                    out.append((t, c))
                return
            for v in o.values():
                visit(v)
        elif isinstance(o, list):
            for v in o:
                visit(v)
    for bb in inst.body["blocks"]:
        visit(bb["statements"])
        visit(bb["terminator"]["kind"])
    return out


def array_const(prog, c, width):
    k = c["kind"]
    if isinstance(k, dict) and "Allocated" in k:
        a = k["Allocated"]
        if a["provenance"]["ptrs"]:
            off, aid = a["provenance"]["ptrs"][0]
            b = prog.alloc_bytes(aid)
        else:
            b = bytes(x or 0 for x in a["bytes"])
        if b is None:
            return None
        return [int.from_bytes(b[i:i + width], "little") for i in range(0, len(b), width)]
    return None


def f64_consts(prog, inst, cone=True):
    """f64 literals used by `inst` and (cone=True) by the crate-local functions it reaches: a helper extracted from the
    function keeps its constants in the search"""
    out = []
    insts = [inst]
    if cone:
        insts = [prog.inst[i] for i in prog.reach([inst.id]) if prog.inst[i].local and prog.inst[i].body is not None] or [inst]
    for i_ in insts:
        out.extend(_f64_consts_one(prog, i_))
    return out


def _f64_consts_one(prog, inst):
    out = []
    for t, c in consts_in(prog, inst, lambda t: t.tag == "Float" and t.arg == "F64"):
        k = c["kind"]
        if isinstance(k, dict) and "Allocated" in k:
            out.append(struct.unpack("<d", bytes(x or 0 for x in k["Allocated"]["bytes"]))[0])
    return out


def tag_leaves(tag, acc=None):
    acc = set() if acc is None else acc
    if isinstance(tag, tuple):
        for x in tag[1:]:
            tag_leaves(x, acc)
    elif tag is not None:
        acc.add(tag)
    return acc


def run(R):
    S = Session()
    ctx, E, prog = S.ctx, S.E, S.prog
    c03.setup(S, R.tier, R)
    R.trust("rustc CTFE + MIR (nightly)", "E0 fact extractor", "E2 abstract interpreter and models", "Falcon specification v1.2 Table 3.1 / Algorithm 13", "vendored PQClean sources")
    d = derived()
    usz = ctx.usize_ty()
    u8 = S.ty("u8")
    base = S.find("samplerz::base_sampler")
    aexp = S.find("samplerz::approx_exp")
    bexp = S.find("samplerz::ber_exp")
    sz = S.find("samplerz::sampler_z")
    gp = S.find("math::gen_poly")
    # ---- (1) constants
    tabs = [array_const(prog, c, 16) for t, c in consts_in(prog, base, lambda t: t.tag in ("Array", "Ref") and "u128; 18" in t.s)]
    tabs = [t for t in tabs if t and len(t) == 18]
    R.check(len(tabs) >= 1 and all(t == RCDT for t in tabs), "C09-const", "base_sampler RCDT", "the 18 table entries equal the specification's Table 3.1",
            f"table differs from the specification at indices {[i for i in range(18) if tabs and tabs[0][i] != RCDT[i]]}" if tabs else "no [u128; 18] constant found", key="rcdt")
    pq = pqclean(512)
    R.check(pq["rcdt"] == RCDT, "C09-sib", "PQClean dist[]", "PQClean's 18x3 24-bit limbs recombine to the same table", key="rcdt-pq")
    ctab = [array_const(prog, c, 8) for t, c in consts_in(prog, aexp, lambda t: (t.tag in ("Array", "Ref")) and "u64; 13" in t.s)]
    ctab = [t for t in ctab if t and len(t) == 13]
    R.check(len(ctab) >= 1 and all(t == FACCT_C for t in ctab), "C09-const", "approx_exp C", "the 13 polynomial coefficients equal the FACCT constants of the specification",
            f"coefficients differ at {[i for i in range(13) if ctab and ctab[0][i] != FACCT_C[i]]}" if ctab else "no [u64; 13] constant found", key="facct")
    R.check(pq["facct_c"] == FACCT_C, "C09-sib", "PQClean fpr_expm_p63 C[]", "PQClean uses the same 13 constants", key="facct-pq")
    fz = f64_consts(prog, sz)
    inv = float(d["inv_2sigma_max_sq"])
    near = [x for x in fz if abs(x - inv) < 1e-3]
    R.check(len(near) == 1 and f64_ulp_diff(near[0], inv) <= 1, "C09-const", "sampler_z 1/(2 sigma_max^2)", f"constant {near[0] if near else None} is within 1 ulp of 1/(2*1.8205^2)",
            f"constants near 1/(2 sigma_max^2) = {inv}: {near}", key="inv2sig")
    R.check(f64_ulp_diff(pq["inv_2sqrsigma0"], inv) <= 1, "C09-sib", "PQClean fpr_inv_2sqrsigma0", "reference constant agrees", key="inv2sig-pq")
    fb = f64_consts(prog, bexp)
    ln2 = [x for x in fb if abs(x - math.log(2)) < 1e-6]
    R.check(len(ln2) >= 1 and all(f64_ulp_diff(x, float(d["ln2"])) <= 1 for x in ln2), "C09-const", "ber_exp ln 2", f"ln 2 constant(s) {sorted(set(ln2))} within 1 ulp", key="ln2")
    fg = f64_consts(prog, gp)
    star = float(d["sigma_star"])
    cand = [x for x in fg if abs(x - star) < 1e-9]
    R.check(len(cand) >= 1, "C09-const", "gen_poly sigma*", f"sigma* = {cand[0] if cand else None} equals 1.17*sqrt(q/8192) = {star} to 1e-9",
            f"float constants of gen_poly {sorted(set(fg))} contain nothing within 1e-9 of {star}", key="sigmastar")
    # ---- (2) base_sampler
    # every comparison between the 72-bit draw u and a constant, whatever the idiom (filter().count(), a counting loop,
    # take_while ..): normalised to the threshold t of its true-set {u : u < t}
    preds = []
    from fv.mir import kind_of as _kind_of

    def obs(ev, **kw):
        if ev != "assign" or ctx.quiet or not kw["frame"].inst.name.startswith(base.name):
            return
        fr = kw["frame"]
        try:
            stmt = fr.body.blocks[kw["bb"]]["statements"][kw["si"]]
            k_, v_ = _kind_of(stmt["kind"])
            rk, rv = _kind_of(v_[1])
            if rk != "BinaryOp" or rv[0] not in ("Lt", "Le", "Gt", "Ge", "Eq", "Ne"):
                return
            stt = kw["st"]
            x, y = S.E.operand(stt, fr, rv[1]), S.E.operand(stt, fr, rv[2])
            if type(x) is not I or type(y) is not I:
                return
            ix, iy = stt.itv[x.vid], stt.itv[y.vid]
            wide = lambda r: r[1] - r[0] >= (1 << 63)
            if wide(ix) and iy[0] == iy[1]:
                preds.append((rv[0], "u-left", iy[0], ix))
            elif wide(iy) and ix[0] == ix[1]:
                preds.append((rv[0], "u-right", ix[0], iy))
            elif wide(ix) or wide(iy):
                preds.append((rv[0], "non-constant", None, ix if wide(ix) else iy))
        except Exception:
            pass
    ctx.observers.append(obs)
    ctx.hooks["unroll"] = lambda fr, h: 20 if fr.inst.name.startswith(base.name) else 0

    def run_base(head_rng):
        del preds[:]
        st = St()
        heads = {i: ctx.mk_int(st, *head_rng(i), u8, taint=True) for i in range(9)}
        b = Sq(ctx.top_int(st, u8, taint=True), ctx.const_int(st, 9, usz), heads)
        n0 = len(ctx.obl)
        outs = S.run(base, [b], st)
        return outs, S.obligations_since(n0)
    outs, obls = run_base(lambda i: (0, 255))
    record_obligations(R, "C09-asserts", obls, site_prefix="[base_sampler] ")
    ok = False
    why = f"{len(preds)} comparisons of the draw with a constant observed"
    thr = []
    good = bool(preds) and bool(outs)
    for op, side, c, urng in preds:
        if side == "non-constant" or op in ("Eq", "Ne"):
            good, why = False, f"the draw is compared ({op}) with something that is not one table constant"
            break
        if urng != (0, (1 << 72) - 1):
            good, why = False, f"u ranges over {urng}, expected [0, 2^72)"
            break
        # true-set as a threshold: {u : u < t}  (u < c -> c;  u <= c -> c+1;  c > u -> c;  c >= u -> c+1); the complementary forms count the same set negated
        if (op, side) in (("Lt", "u-left"), ("Gt", "u-right"), ("Ge", "u-left"), ("Le", "u-right")):
            thr.append(c)
        else:
            thr.append(c + 1)
    if good:
        ok = sorted(set(thr), reverse=True) == RCDT and len(thr) >= 18
        if not ok:
            why = f"the draw is compared against thresholds that are not the 18 table values (e.g. {sorted(set(thr) - set(RCDT))[:2]}): the counted set is not {{i : u < RCDT[i]}}"
        r, rst = outs[0]
        rngs = [s_.itv[r_.vid] for r_, s_ in outs if type(r_) is I]
        if ok and not (rngs and min(x[0] for x in rngs) >= 0 and max(x[1] for x in rngs) <= 18):
            ok, why = False, f"result range {rngs}"
    R.check(ok, "C09-base", "base_sampler", "the draw u in [0, 2^72) is compared with each of the 18 table values as `u < RCDT[i]` (in any syntactic form) and the result lies in [0,18]", why, key="base")
    # the two extreme partitions pin the counting direction: u = 0 is below every entry, u = 2^72 - 1 above every entry
    for nm, rng, want in (("all-zero draw", (0, 0), 18), ("all-ones draw", (255, 255), 0)):
        o2, _ = run_base(lambda i, rng=rng: rng)
        got = sorted({s_.itv[r_.vid] for r_, s_ in o2 if type(r_) is I})
        R.check(got == [(want, want)], "C09-base", f"base_sampler, {nm}", f"returns {want} (the number of table entries above the draw)", f"returns {got}, expected {want}", key=f"base-extreme|{want}")
    outs, _ = run_base(lambda i: (0, 0) if i == 0 else (0, 255))
    umax = max((p[3][1] for p in preds), default=None)
    R.check(umax == (1 << 64) - 1, "C09-base", "base_sampler byte order", "with the first byte zero u < 2^64: the 9 bytes are read big-endian, zero-extended on the left",
            f"with the first byte zero u can reach {umax}", key="base-endian")
    ctx.hooks.pop("unroll", None)
    ctx.observers.remove(obs)
    # ---- approx_exp on its domain
    st = St()
    n0 = len(ctx.obl)
    outs = S.run(aexp, [Fl(0.0, math.log(2)), Fl(0.0, 1.0)], st)
    record_obligations(R, "C09-asserts", S.obligations_since(n0), site_prefix="[approx_exp, x in [0,ln2], ccs in [0,1]] ")
    if outs:
        r, rst = outs[0]
        R.check(type(r) is I and rst.itv[r.vid][1] <= (1 << 63) + (1 << 12), "C09-asserts", "approx_exp result", f"result in {rst.itv[r.vid]} (about 2^63 * ccs * exp(-x))", key="approx-range")
    # ---- ber_exp: x in [0, ln2) fully; larger x with the remainder assumption
    ctx.hooks["unroll"] = lambda fr, h: 10 if fr.inst is bexp else 0
    smin = min(SPEC[512]["sigmin"], SPEC[1024]["sigmin"])
    ccs_lo = math.nextafter(smin / SIGMA_MAX, 0.0)

    def bytes7(st):
        heads = {i: ctx.top_int(st, u8, taint=True) for i in range(7)}
        return Sq(ctx.top_int(st, u8, taint=True), ctx.const_int(st, 7, usz), heads)
    for tag, xr in (("x in [0, ln 2)", (0.0, math.nextafter(math.log(2), 0.0))), ("x in [0, 1e9]", (0.0, 1e9))):
        st = St()
        n0 = len(ctx.obl)
        S.run(bexp, [Fl(*xr), Fl(ccs_lo, 1.0), bytes7(st)], st)

        def assumed(o, tag=tag):
            if tag != "x in [0, ln 2)" and (o.fn.endswith("approx_exp") or "arith.rs" in o.span or (o.fn.endswith("ber_exp") and o.kind == "Overflow" and "Sub" in o.role)):
                return ASSUME_R
            return None
        record_obligations(R, "C09-asserts", S.obligations_since(n0), assumed, site_prefix=f"[ber_exp, {tag}, ccs in [sigma_min/sigma_max, 1]] ")
    # ---- ber_exp: the right shift of the 128-bit acceptance value saturates at 63 for x >= 64 ln 2
    shifts = []

    def obs_s(ev, **kw):
        if ev == "assign" and not ctx.quiet and kw["frame"].inst is bexp:
            fr = kw["frame"]
            stmt = fr.body.blocks[kw["bb"]]["statements"][kw["si"]]
            k_, v_ = kind_of(stmt["kind"])
            rk, rv = kind_of(v_[1])
            if rk == "BinaryOp" and rv[0] in ("Shr", "ShrUnchecked"):
                try:
                    lhs = E.operand(kw["st"], fr, rv[1])
                    amt = E.operand(kw["st"], fr, rv[2])
                    if type(lhs) is I and prog.ty(lhs.ty).bits() == 128 and type(amt) is I:
                        shifts.append(kw["st"].itv[amt.vid])
                except Exception:
                    pass
    ctx.observers.append(obs_s)
    ctx.hooks["unroll"] = lambda fr, h: 10 if fr.inst is bexp else 0
    st = St()
    S.run(bexp, [Fl(64.5 * math.log(2), 1e9), Fl(ccs_lo, 1.0), bytes7(st)], st)
    ctx.observers.remove(obs_s)
    R.check(shifts and all(a == (63, 63) for a in shifts), "C09-berexp", "ber_exp shift for x >= 64 ln 2", "the 128-bit acceptance value is shifted by exactly 63 (saturation) when floor(x / ln 2) >= 64",
            f"for x >= 64 ln 2 the shift amount ranges over {sorted(set(shifts))} instead of being clamped to 63: far-tail candidates are accepted with probability ~1/2 instead of <= 2^-63",
            key="berexp-shamt")
    # ---- (3)(4) sampler_z
    calls, rets, draws = [], [], []

    def obs2(ev, **kw):
        if ctx.quiet:
            return
        fr = kw.get("frame")
        in_sz = fr is not None and (fr.inst is sz or fr.inst.name.startswith(sz.name + "::{closure"))     # the body, or a closure of it
        if ev == "enter" and in_sz and kw["callee"] is bexp:
            calls.append(kw["args"])
        elif ev == "ret" and in_sz and kw.get("callee") is bexp:
            rets.append(kw["value"].vid if type(kw["value"]) is I else None)
        elif ev == "assign" and fr.inst is sz and kw["place"]["local"] == 0 and not kw["place"]["projection"]:
            stt = kw["st"]
            dl = [d_["local"] for bi_, c_, a_, d_ in ctx.body(sz).call_sites(lambda c: c is bexp)]
            v = stt.store.get((fr.id, dl[0])) if dl else None
            draws.append(("ret", stt.itv[v.vid] if type(v) is I else None))
        elif ev == "entropy":
            r = kw["rng"]
            draws.append(("draw", fr.inst.name, r.d.get("origin") if type(r) is Md else None))
    ctx.observers.append(obs2)
    st = St()
    rng = S.cell(st, "rng", Md("rng", {"origin": "param", "site": None}), mut=True)
    n0 = len(ctx.obl)
    outs = S.run(sz, [Fl(-math.inf, math.inf, False, "mu"), Fl(smin, SIGMA_MAX, False, "sigma"), Fl(smin, max(SPEC[512]["sigmin"], SPEC[1024]["sigmin"]), False, "sigma_min"), rng], st)
    ctx.observers.remove(obs2)
    ctx.hooks.pop("unroll", None)

    def assumed2(o):
        if o.fn.endswith("approx_exp") or "arith.rs" in o.span or (o.fn.endswith("ber_exp") and o.kind == "Overflow" and "Sub" in o.role):
            return ASSUME_R
        return None
    record_obligations(R, "C09-asserts", S.obligations_since(n0), assumed2, site_prefix="[sampler_z, any mu, sigma' in [sigma_min, 1.8205]] ")
    if calls:
        x, ccs, _b = calls[-1]
        # identity tests on the extracted expressions (any algebraically equivalent way of writing them is accepted)
        import itertools as _it
        import random as _rnd
        from .symalg import ev as _ev, NotSymbolic as _NS, close as _close

        def floor_ext(tag, env, memo):
            # `floor` nodes are evaluated too
            if isinstance(tag, tuple) and tag[0] == "floor":
                return float(math.floor(floor_ext(tag[1], env, memo)))
            if isinstance(tag, tuple) and tag[0] in ("fAdd", "fSub", "fMul", "fDiv"):
                x_, y_ = floor_ext(tag[1], env, memo), floor_ext(tag[2], env, memo)
                return {"fAdd": x_ + y_, "fSub": x_ - y_, "fMul": x_ * y_, "fDiv": (x_ / y_) if y_ != 0 else float("nan")}[tag[0]]
            if isinstance(tag, tuple) and tag[0] == "neg":
                return -floor_ext(tag[1], env, memo)
            return _ev(tag, env, memo)
        okc, whyc = type(ccs) is Fl and ccs.tag is not None, f"ccs is {ccs}"
        if okc:
            try:
                for t_ in range(5):
                    rr = _rnd.Random(900 + t_)
                    vals = {"sigma": rr.uniform(1.2, 1.9), "sigma_min": rr.uniform(1.1, 1.3), "mu": rr.uniform(-50, 50)}
                    got = floor_ext(ccs.tag, lambda l: vals.get(l) if isinstance(l, str) else None, {})
                    if not _close(got, vals["sigma_min"] / vals["sigma"]):
                        okc, whyc = False, f"ccs is computed as {ccs.tag}: {got} instead of sigma_min / sigma = {vals['sigma_min'] / vals['sigma']}"
            except _NS as e_:
                okc, whyc = False, f"ccs has no symbolic form ({e_})"
        R.check(okc, "C09-wiring", "sampler_z -> ber_exp (ccs)", "ccs = sigma_min / sigma (identity test)", whyc, key="ccs")
        from .symalg import leaves as _leaves
        leaves = _leaves(x.tag if type(x) is Fl else None)
        ints = sorted({l for l in leaves if isinstance(l, tuple) and l[0] == "int"}, key=str)
        okx, whyx = type(x) is Fl and x.tag is not None and len(ints) == 2, f"x's ingredients: {sorted(map(str, leaves))}"
        if okx:
            okx = False
            for zleaf, z0sq in _it.permutations(ints):
                good = True
                try:
                    for t_ in range(5):
                        rr = _rnd.Random(950 + t_)
                        vals = {"sigma": rr.uniform(1.2, 1.9), "sigma_min": rr.uniform(1.1, 1.3), "mu": rr.uniform(-50, 50)}
                        zv, wv = float(rr.randint(-12, 12)), float(rr.randint(0, 300))
                        env = lambda l: (vals.get(l) if isinstance(l, str) else (zv if l == zleaf else wv if l == z0sq else None))
                        got = floor_ext(x.tag, env, {})
                        r_ = vals["mu"] - math.floor(vals["mu"])
                        want_ = (zv - r_) ** 2 / (2 * vals["sigma"] ** 2) - wv * inv
                        if not _close(got, want_, 1e-9):
                            good = False
                            break
                except _NS:
                    good = False
                if good:
                    okx = True
                    break
            if not okx:
                whyx = "x is not (z - (mu - floor(mu)))^2 / (2 sigma^2) - z0^2 / (2 sigma_max^2) (identity test with z and z0^2 as free integers); ingredients: " + str(sorted(map(str, leaves)))[:200]
        R.check(okx, "C09-wiring", "sampler_z -> ber_exp (x)", "x = (z - (mu - floor(mu)))^2 / (2 sigma^2) - z0^2 / (2 sigma_max^2) (identity test)", whyx, key="x")
    else:
        R.violation("C09-wiring", "sampler_z", "no call to ber_exp observed", key="ccs")
    # the rejection guard, semantically: with ber_exp replaced by a stand-in that always answers `false` sampler_z has no
    # return at all (it can only loop), with one that always answers `true` it returns
    import re as _re
    res_g = {}
    for ans in (0, 1):
        def m_ber(E, stt, fr, bi, callee, args, dest_ty, ans=ans):
            return [(E.ctx.const_int(stt, ans, dest_ty), stt)]
        ctx.models.table[:0] = [(_re.compile(_re.escape(bexp.name) + "$"), m_ber)]
        ctx.models.cache.clear()
        st = St()
        rng = S.cell(st, "rng", Md("rng", {"origin": "param", "site": None}), mut=True)
        ctx.quiet += 1
        try:
            res_g[ans] = len(S.run(sz, [Fl(-math.inf, math.inf, False, "mu"), Fl(smin, SIGMA_MAX, False, "sigma"), Fl(smin, max(SPEC[512]["sigmin"], SPEC[1024]["sigmin"]), False, "sigma_min"), rng], st))
        finally:
            ctx.quiet -= 1
            del ctx.models.table[0]
            ctx.models.cache.clear()
    R.check(res_g.get(0) == 0 and res_g.get(1, 0) >= 1, "C09-wiring", "sampler_z return", "a value is returned only where ber_exp answered true (no return is reachable when it always answers false)",
            f"returns reachable with ber_exp always false: {res_g.get(0)}, always true: {res_g.get(1)}", key="ret-guard")
    dr = [dd for dd in draws if dd[0] == "draw"]
    R.check(len(dr) >= 3 and all(dd[2] == "param" for dd in dr), "C09-wiring", "sampler_z draws", f"{len(dr)} draws, all from the generator parameter", f"draws: {dr[:4]}", key="draws")
    R.analysed["unsupported"] = S.unsupported[:10]
    R.floor("comparisons observed in base_sampler", 18, 18)
