"""C09 — the integer Gaussian sampler (decided clauses).

 (1) constants: RCDT (18 x 72-bit) equals the specification's Table 3.1 and PQClean's dist[] recombined;
     approx_exp's 13 coefficients equal the FACCT constants (spec and PQClean); 1/(2*sigma_max^2) and ln 2
     are within 1 ulp of the re-derived values; gen_poly's sigma* = 1.17*sqrt(q/8192);
 (2) base_sampler: u is the big-endian value of the 9 bytes zero-extended, ranging over [0, 2^72); the result
     is the number of table entries r with u < r (strict, u on the left), over all 18 entries;
 (3) sampler_z wiring: ccs = sigma_min * (1/sigma), the exponent uses dss = 1/(2 sigma^2), r = mu - floor(mu)
     and 1/(2 sigma_max^2); the value is returned only on a path where ber_exp answered true; the three draws
     per round come from the generator parameter (9, 1 and 7 bytes);
 (4) integer skeleton: every overflow / bounds / shift assert in sampler_z, base_sampler, ber_exp, approx_exp is an
     obligation, for every centre mu, sigma' in [sigma_min, 1.8205], every byte stream; approx_exp is total on its
     documented domain (x in [0, ln 2], ccs in [0, 1]); two obligations fail and are genuine (known findings K1, K2).
Not decided: that approx_exp / ber_exp equal the reference on all inputs; termination; the output distribution."""
import math
import struct

from fv.absint import St, Pt, Ag, I, Sq, En, Md, Fl, iter_ints
from fv.mir import kind_of
from fv.oracle import RCDT, FACCT_C, SIGMA_MAX, SPEC, derived, pqclean, f64_ulp_diff
from fv.facts import const_of
from .common import Session, record_obligations
from . import c03

LEVEL = "other"
TECHNIQUE = "CTFE constants vs spec/PQClean; abstract interpretation of base_sampler / ber_exp / approx_exp / sampler_z with symbolic float tags and bounded loop unrolling"
EXPLANATION = ("Tables are read from the compiled constants. base_sampler's 18 comparisons are observed individually; sampler_z's floating-point wiring is "
               "followed with symbolic tags on the parameters; all integer asserts are obligations. Equality of the fixed-point exponential with the reference on "
               "every input and the distribution itself are not decided.")
ASSUME_R = ("ber_exp passes r = x - ln2*floor(x/ln2) to approx_exp: r lies in [0, ln 2] by construction (a floating-point remainder; relational, outside the "
            "interval domain); approx_exp is proved total on that domain separately")


def consts_in(prog, inst, want):
    """constants of a given kind in a body: want(tyinfo) -> bool; returns list of decoded values"""
    out = []

    def visit(o):
        if isinstance(o, dict):
            if "Constant" in o and isinstance(o["Constant"], dict) and "const_" in o["Constant"]:
                c = o["Constant"]["const_"]
                t = prog.ty(c["ty"])
                if want(t):
                    out.append((t, c))
                return
            for v in o.values():
                visit(v)
        elif isinstance(o, list):
            for v in o:
                visit(v)
    for bb in inst.body["blocks"]:
        visit(bb["statements"])
        visit(bb["terminator"]["kind"])
    return out


def array_const(prog, c, width):
    k = c["kind"]
    if isinstance(k, dict) and "Allocated" in k:
        a = k["Allocated"]
        if a["provenance"]["ptrs"]:
            off, aid = a["provenance"]["ptrs"][0]
            b = prog.alloc_bytes(aid)
        else:
            b = bytes(x or 0 for x in a["bytes"])
        if b is None:
            return None
        return [int.from_bytes(b[i:i + width], "little") for i in range(0, len(b), width)]
    return None


def f64_consts(prog, inst):
    out = []
    for t, c in consts_in(prog, inst, lambda t: t.tag == "Float" and t.arg == "F64"):
        k = c["kind"]
        if isinstance(k, dict) and "Allocated" in k:
            out.append(struct.unpack("<d", bytes(x or 0 for x in k["Allocated"]["bytes"]))[0])
    return out


def tag_leaves(tag, acc=None):
    acc = set() if acc is None else acc
    if isinstance(tag, tuple):
        for x in tag[1:]:
            tag_leaves(x, acc)
    elif tag is not None:
        acc.add(tag)
    return acc


def run(R):
    S = Session()
    ctx, E, prog = S.ctx, S.E, S.prog
    c03.setup(S, R.tier, R)
    R.trust("rustc CTFE + MIR (nightly)", "E0 fact extractor", "E2 abstract interpreter and models", "Falcon specification v1.2 Table 3.1 / Algorithm 13", "vendored PQClean sources")
    d = derived()
    usz = ctx.usize_ty()
    u8 = S.ty("u8")
    base = S.find("samplerz::base_sampler")
    aexp = S.find("samplerz::approx_exp")
    bexp = S.find("samplerz::ber_exp")
    sz = S.find("samplerz::sampler_z")
    gp = S.find("math::gen_poly")
    # ---- (1) constants
    tabs = [array_const(prog, c, 16) for t, c in consts_in(prog, base, lambda t: t.tag == "Array" and "u128" in t.s)]
    tabs = [t for t in tabs if t and len(t) == 18]
    R.check(len(tabs) >= 1 and all(t == RCDT for t in tabs), "C09-const", "base_sampler RCDT", "the 18 table entries equal the specification's Table 3.1",
            f"table differs from the specification at indices {[i for i in range(18) if tabs and tabs[0][i] != RCDT[i]]}" if tabs else "no [u128; 18] constant found", key="rcdt")
    pq = pqclean(512)
    R.check(pq["rcdt"] == RCDT, "C09-sib", "PQClean dist[]", "PQClean's 18x3 24-bit limbs recombine to the same table", key="rcdt-pq")
    ctab = [array_const(prog, c, 8) for t, c in consts_in(prog, aexp, lambda t: (t.tag in ("Array", "Ref")) and "u64; 13" in t.s)]
    ctab = [t for t in ctab if t and len(t) == 13]
    R.check(len(ctab) >= 1 and all(t == FACCT_C for t in ctab), "C09-const", "approx_exp C", "the 13 polynomial coefficients equal the FACCT constants of the specification",
            f"coefficients differ at {[i for i in range(13) if ctab and ctab[0][i] != FACCT_C[i]]}" if ctab else "no [u64; 13] constant found", key="facct")
    R.check(pq["facct_c"] == FACCT_C, "C09-sib", "PQClean fpr_expm_p63 C[]", "PQClean uses the same 13 constants", key="facct-pq")
    fz = f64_consts(prog, sz)
    inv = float(d["inv_2sigma_max_sq"])
    near = [x for x in fz if abs(x - inv) < 1e-3]
    R.check(len(near) == 1 and f64_ulp_diff(near[0], inv) <= 1, "C09-const", "sampler_z 1/(2 sigma_max^2)", f"constant {near[0] if near else None} is within 1 ulp of 1/(2*1.8205^2)",
            f"constants near 1/(2 sigma_max^2) = {inv}: {near}", key="inv2sig")
    R.check(f64_ulp_diff(pq["inv_2sqrsigma0"], inv) <= 1, "C09-sib", "PQClean fpr_inv_2sqrsigma0", "reference constant agrees", key="inv2sig-pq")
    fb = f64_consts(prog, bexp)
    ln2 = [x for x in fb if abs(x - math.log(2)) < 1e-6]
    R.check(len(ln2) >= 1 and all(f64_ulp_diff(x, float(d["ln2"])) <= 1 for x in ln2), "C09-const", "ber_exp ln 2", f"ln 2 constant(s) {sorted(set(ln2))} within 1 ulp", key="ln2")
    fg = f64_consts(prog, gp)
    star = float(d["sigma_star"])
    cand = [x for x in fg if abs(x - star) < 1e-9]
    R.check(len(cand) >= 1, "C09-const", "gen_poly sigma*", f"sigma* = {cand[0] if cand else None} equals 1.17*sqrt(q/8192) = {star} to 1e-9",
            f"float constants of gen_poly {sorted(set(fg))} contain nothing within 1e-9 of {star}", key="sigmastar")
    # ---- (2) base_sampler
    preds = []

    def obs(ev, **kw):
        if ev == "filter_pred" and not ctx.quiet and kw["frame"].inst is base:
            stt = kw["st"]
            r = kw["result"]
            p = stt.prov.get(r.vid)
            item = kw["item"]
            preds.append((p, stt.const(item) if type(item) is I else None, stt))
    ctx.observers.append(obs)

    def run_base(head_rng):
        del preds[:]
        st = St()
        heads = {i: ctx.mk_int(st, *head_rng(i), u8, taint=True) for i in range(9)}
        b = Sq(ctx.top_int(st, u8, taint=True), ctx.const_int(st, 9, usz), heads)
        n0 = len(ctx.obl)
        outs = S.run(base, [b], st)
        return outs, S.obligations_since(n0)
    outs, obls = run_base(lambda i: (0, 255))
    record_obligations(R, "C09-asserts", obls, site_prefix="[base_sampler] ")
    ok = False
    why = f"{len(preds)} comparisons observed"
    if len(preds) == 18 and outs:
        entries = []
        good = True
        for p, itemv, stt in preds:
            if not p or p[0] != "cmp" or p[2] != "Lt":
                good = False
                why = f"a table comparison is {p[2] if p else None}, expected strict `<`"
                break
            a, b_ = p[1]
            if stt.itv.get(b_, (None, None))[0] != itemv or stt.itv.get(b_, (0, 1))[0] != stt.itv.get(b_, (0, 1))[1]:
                good = False
                why = "the random value is not on the left of `<`"
                break
            if stt.itv[a] != (0, (1 << 72) - 1):
                good = False
                why = f"u ranges over {stt.itv[a]}, expected [0, 2^72)"
                break
            entries.append(itemv)
        ok = good and sorted(entries, reverse=True) == RCDT
        if good and not ok:
            why = "the compared entries are not the 18 table values"
        r, rst = outs[0]
        ok = ok and type(r) is I and rst.itv[r.vid] == (0, 18)
    R.check(ok, "C09-base", "base_sampler", "result = #{i : u < RCDT[i]} over all 18 entries, u in [0, 2^72), result in [0,18]", why, key="base")
    outs, _ = run_base(lambda i: (0, 0) if i == 0 else (0, 255))
    umax = max((stt.itv[p[1][0]][1] for p, _, stt in preds if p and p[0] == "cmp"), default=None)
    R.check(umax == (1 << 64) - 1, "C09-base", "base_sampler byte order", "with the first byte zero u < 2^64: the 9 bytes are read big-endian, zero-extended on the left",
            f"with the first byte zero u can reach {umax}", key="base-endian")
    ctx.observers.remove(obs)
    # ---- approx_exp on its domain
    st = St()
    n0 = len(ctx.obl)
    outs = S.run(aexp, [Fl(0.0, math.log(2)), Fl(0.0, 1.0)], st)
    record_obligations(R, "C09-asserts", S.obligations_since(n0), site_prefix="[approx_exp, x in [0,ln2], ccs in [0,1]] ")
    if outs:
        r, rst = outs[0]
        R.check(type(r) is I and rst.itv[r.vid][1] <= (1 << 63) + (1 << 12), "C09-asserts", "approx_exp result", f"result in {rst.itv[r.vid]} (about 2^63 * ccs * exp(-x))", key="approx-range")
    # ---- ber_exp: x in [0, ln2) fully; larger x with the remainder assumption
    ctx.hooks["unroll"] = lambda fr, h: 10 if fr.inst is bexp else 0
    smin = min(SPEC[512]["sigmin"], SPEC[1024]["sigmin"])
    ccs_lo = math.nextafter(smin / SIGMA_MAX, 0.0)

    def bytes7(st):
        heads = {i: ctx.top_int(st, u8, taint=True) for i in range(7)}
        return Sq(ctx.top_int(st, u8, taint=True), ctx.const_int(st, 7, usz), heads)
    for tag, xr in (("x in [0, ln 2)", (0.0, math.nextafter(math.log(2), 0.0))), ("x in [0, 1e9]", (0.0, 1e9))):
        st = St()
        n0 = len(ctx.obl)
        S.run(bexp, [Fl(*xr), Fl(ccs_lo, 1.0), bytes7(st)], st)

        def assumed(o, tag=tag):
            if tag != "x in [0, ln 2)" and (o.fn.endswith("approx_exp") or "arith.rs" in o.span or (o.fn.endswith("ber_exp") and o.kind == "Overflow" and "Sub" in o.role)):
                return ASSUME_R
            return None
        record_obligations(R, "C09-asserts", S.obligations_since(n0), assumed, site_prefix=f"[ber_exp, {tag}, ccs in [sigma_min/sigma_max, 1]] ")
    # ---- ber_exp: the right shift of the 128-bit acceptance value saturates at 63 for x >= 64 ln 2
    shifts = []

    def obs_s(ev, **kw):
        if ev == "assign" and not ctx.quiet and kw["frame"].inst is bexp:
            fr = kw["frame"]
            stmt = fr.body.blocks[kw["bb"]]["statements"][kw["si"]]
            k_, v_ = kind_of(stmt["kind"])
            rk, rv = kind_of(v_[1])
            if rk == "BinaryOp" and rv[0] in ("Shr", "ShrUnchecked"):
                try:
                    lhs = E.operand(kw["st"], fr, rv[1])
                    amt = E.operand(kw["st"], fr, rv[2])
                    if type(lhs) is I and prog.ty(lhs.ty).bits() == 128 and type(amt) is I:
                        shifts.append(kw["st"].itv[amt.vid])
                except Exception:
                    pass
    ctx.observers.append(obs_s)
    ctx.hooks["unroll"] = lambda fr, h: 10 if fr.inst is bexp else 0
    st = St()
    S.run(bexp, [Fl(64.5 * math.log(2), 1e9), Fl(ccs_lo, 1.0), bytes7(st)], st)
    ctx.observers.remove(obs_s)
    R.check(shifts and all(a == (63, 63) for a in shifts), "C09-berexp", "ber_exp shift for x >= 64 ln 2", "the 128-bit acceptance value is shifted by exactly 63 (saturation) when floor(x / ln 2) >= 64",
            f"for x >= 64 ln 2 the shift amount ranges over {sorted(set(shifts))} instead of being clamped to 63: far-tail candidates are accepted with probability ~1/2 instead of <= 2^-63",
            key="berexp-shamt")
    # ---- (3)(4) sampler_z
    calls, rets, draws = [], [], []

    def obs2(ev, **kw):
        if ctx.quiet:
            return
        fr = kw.get("frame")
        if ev == "enter" and fr.inst is sz and kw["callee"] is bexp:
            calls.append(kw["args"])
        elif ev == "ret" and fr.inst is sz and kw.get("callee") is bexp:
            rets.append(kw["value"].vid if type(kw["value"]) is I else None)
        elif ev == "assign" and fr.inst is sz and kw["place"]["local"] == 0 and not kw["place"]["projection"]:
            stt = kw["st"]
            dl = [d_["local"] for bi_, c_, a_, d_ in ctx.body(sz).call_sites(lambda c: c is bexp)]
            v = stt.store.get((fr.id, dl[0])) if dl else None
            draws.append(("ret", stt.itv[v.vid] if type(v) is I else None))
        elif ev == "entropy":
            r = kw["rng"]
            draws.append(("draw", fr.inst.name, r.d.get("origin") if type(r) is Md else None))
    ctx.observers.append(obs2)
    st = St()
    rng = S.cell(st, "rng", Md("rng", {"origin": "param", "site": None}), mut=True)
    n0 = len(ctx.obl)
    outs = S.run(sz, [Fl(-math.inf, math.inf, False, "mu"), Fl(smin, SIGMA_MAX, False, "sigma"), Fl(smin, max(SPEC[512]["sigmin"], SPEC[1024]["sigmin"]), False, "sigma_min"), rng], st)
    ctx.observers.remove(obs2)
    ctx.hooks.pop("unroll", None)

    def assumed2(o):
        if o.fn.endswith("approx_exp") or "arith.rs" in o.span or (o.fn.endswith("ber_exp") and o.kind == "Overflow" and "Sub" in o.role):
            return ASSUME_R
        return None
    record_obligations(R, "C09-asserts", S.obligations_since(n0), assumed2, site_prefix="[sampler_z, any mu, sigma' in [sigma_min, 1.8205]] ")
    if calls:
        x, ccs, _b = calls[-1]
        want = ("fMul", "sigma_min", ("fDiv", 1.0, "sigma"))
        want2 = ("fMul", ("fDiv", 1.0, "sigma"), "sigma_min")
        R.check(type(ccs) is Fl and ccs.tag in (want, want2), "C09-wiring", "sampler_z -> ber_exp (ccs)", "ccs = sigma_min * (1 / sigma)", f"ccs is computed as {ccs.tag if type(ccs) is Fl else ccs}", key="ccs")
        leaves = tag_leaves(x.tag if type(x) is Fl else None)
        inv_ok = any(isinstance(l, float) and f64_ulp_diff(l, inv) <= 1 for l in leaves)
        need = {"mu", "sigma"}
        has_floor = "floor" in str(x.tag)
        half = any(isinstance(l, float) and l == 0.5 for l in leaves)
        int_parts = [l for l in leaves if isinstance(l, tuple)]
        R.check(inv_ok and need <= {l for l in leaves if isinstance(l, str)} and has_floor and half and "sigma_min" not in leaves, "C09-wiring", "sampler_z -> ber_exp (x)",
                "x is built from (z - (mu - floor(mu)))^2 * 0.5/sigma^2 and z0^2 * 1/(2 sigma_max^2)", f"x's ingredients: {sorted(map(str, leaves))}", key="x")
    else:
        R.violation("C09-wiring", "sampler_z", "no call to ber_exp observed", key="ccs")
    retst = [dd for dd in draws if dd[0] == "ret"]
    R.check(retst and all(dd[1] == (1, 1) for dd in retst), "C09-wiring", "sampler_z return", "a value is returned only where ber_exp answered true",
            f"return reached with ber_exp's answer in {[dd[1] for dd in retst]}", key="ret-guard")
    dr = [dd for dd in draws if dd[0] == "draw"]
    R.check(len(dr) >= 3 and all(dd[2] == "param" for dd in dr), "C09-wiring", "sampler_z draws", f"{len(dr)} draws, all from the generator parameter", f"draws: {dr[:4]}", key="draws")
    R.analysed["unsupported"] = S.unsupported[:10]
    R.floor("comparisons observed in base_sampler", 18, 18)
