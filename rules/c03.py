"""C03 — decoders and verify are total on untrusted bytes (no logic panic, dev profile).

Every panic source (MIR assert, explicit panic call, modelled precondition, unmodelled may-panic
call) in the cones of {Signature,PublicKey,SecretKey}::<N>::from_bytes and verify::<N> is an
obligation decided by the abstract interpreter for ALL byte strings / messages:
  * decoders: input length partitioned at the specification length (below / exact / above);
  * verify: message arbitrary, signature and public key any value of their types (type invariants
    established by the constructor census below);
  * transform layer (NTT butterflies): loops unrolled exactly because all control is determined by
    the constant length (index skeleton concrete, element values abstract);
  * from_b0 (floating-point LDL tree built from decoded secret keys) is NOT analysed: assumption (h).
Not claimed: termination of the hash rejection loop, memory exhaustion."""
from fv.absint import St, Pt, Ag, I, Sq, En, Md
from fv.mir import kind_of
from fv.oracle import SPEC, Q
from .common import Session, record_obligations
from . import effects

LEVEL = "other"
TECHNIQUE = "abstract interpretation (intervals + symbolic difference bounds + exact unrolling of length-controlled loops) of the decoder and verify cones"
EXPLANATION = ("Obligations = all panic sources met by the abstract interpreter in the four cones, for every input. Discharged obligations hold for all "
               "inputs; `assumed` ones are listed with their reason (from_b0's float code; in the quick tier also the n=1024 transform layer, which the "
               "thorough tier unrolls). Level `other` (not `proof`) because of those assumptions.")

ASSUME_H = ("from_b0 (float FFT / LDL tree on decoded f,g,F,G) is not analysed: float arithmetic cannot panic; its indices and recursion depend on the "
            "length N only (halving down to 2) and the baseline suite exercises both lengths — DESIGN.md C03-h")
ASSUME_1024 = ("quick tier: the n=1024 transform layer is the same monomorphic code as n=512 (discharged here by unrolling) with control/addressing "
               "determined by the length only; the thorough tier unrolls it too")


def setup(S, tier, R):
    ctx = S.ctx
    ctx.path_mode_fns = lambda inst: "CyclotomicFourier" in inst.name
    ctx.path_budget = 3000000
    ctx.summary_fns = lambda inst: inst.local
    cache = {}

    def may_panic(inst):
        r = cache.get(inst.id)
        if r is None:
            seen, leaves = effects.cone(S.prog, [inst.id])
            r = any(effects.classify(l) == "panic" for l in leaves)
            cache[inst.id] = r
        return r
    ctx.hooks["may_panic"] = may_panic
    # loops written directly in verify (e.g. the norm accumulated by `for` loops instead of `.sum()`) run over vectors whose
    # length is the constant N: keep their trips apart, so that an accumulator is bounded by N times its largest term
    ctx.hooks["unroll"] = lambda fr, h: 1100 if fr.inst.name.startswith("falcon_rust::falcon::verify::<") else 0


def lengths(kind, N):
    s = SPEC[N]
    return {"Signature": s["sig_bytelen"], "PublicKey": s["pk_bytes"], "SecretKey": s["sk_bytes"]}[kind]


def assumed_reason(state):
    def f(o):
        if o.kind == "unmodelled-call" and "::from_b0" in o.role:
            return ASSUME_H
        return None
    return f


def run_decoder(S, R, kind, N, state, rule="C03-decoder"):
    ctx = S.ctx
    inst = S.find(f"falcon::{kind}::<{N}>::from_bytes")
    L = lengths(kind, N)
    results = {}
    for tag, (lo, hi) in (("short", (0, L - 1)), ("exact", (L, L)), ("long", (L + 1, 1 << 40))):
        st = St()
        b = S.bytes_slice(st, "bytes", lo, hi)
        n0 = len(ctx.obl)
        outs = S.run(inst, [b], st)
        obls = S.obligations_since(n0)
        record_obligations(R, rule, obls, assumed_reason(state), site_prefix=f"[{kind}<{N}> len {tag}] ")
        variants = set()
        val = None
        for r, s2 in outs:
            if type(r) is En:
                variants |= set(r.vs)
                val = (r, s2)
        results[tag] = (variants, val)
        R.check(len(outs) >= 1, rule, f"{kind}::<{N}>::from_bytes len {tag}", f"returns (variants {sorted(variants)}) on every abstract path; {len(obls)} obligations met",
                "analysis found no return at all", key=f"ret|{kind}|{N}|{tag}", nontrivial=False)
    return results


def make_sig(S, st, N):
    ctx = S.ctx
    u8 = S.ty("u8")
    slen = SPEC[N]["sig_bytelen"] - 41
    usz = ctx.usize_ty()
    return Ag((Sq(ctx.top_int(st, u8, taint=True), ctx.const_int(st, 40, usz)),
               Sq(ctx.top_int(st, u8, taint=True), ctx.const_int(st, slen, usz))))


def make_pk(S, st, N):
    return Ag((Ag((Sq(S.felt(st), S.ctx.const_int(st, N, S.ctx.usize_ty())),)),))


def run_verify(S, R, N, state, rule="C03-verify"):
    ctx = S.ctx
    inst = S.find(f"falcon::verify::<{N}>")
    st = St()
    m = S.bytes_slice(st, "m", 0, 1 << 40)
    n0 = len(ctx.obl)
    outs = S.run(inst, [m, S.cell(st, "sig", make_sig(S, st, N)), S.cell(st, "pk", make_pk(S, st, N))], st)
    obls = S.obligations_since(n0)
    record_obligations(R, rule, obls, assumed_reason(state), site_prefix=f"[verify<{N}>] ")
    ok = len(outs) >= 1 and all(type(r) is I for r, _ in outs)
    R.check(ok, rule, f"verify::<{N}>", f"returns a bool on every abstract path; {len(obls)} obligations met", "no boolean return found", key=f"ret|verify|{N}", nontrivial=False)
    return outs, len(obls)


def constructor_census(S, R, rule="C03-invariant"):
    """type invariants used for verify's arguments: who builds Signature / PublicKey values"""
    prog = S.prog
    want = {"falcon::Signature": ("sign", "Signature::<N>::from_bytes"), "falcon::PublicKey": ("PublicKey::<N>::from_secret_key", "PublicKey::<N>::from_bytes"),
            "falcon::SecretKey": ("SecretKey::<N>::from_b0",)}
    found = {k: set() for k in want}
    for inst in prog.inst:
        if not inst.local or inst.body is None:
            continue
        b = None
        for bb in inst.body["blocks"]:
            for stt in bb["statements"]:
                k, v = kind_of(stt["kind"])
                if k != "Assign":
                    continue
                rk, rv = kind_of(v[1])
                if rk != "Aggregate":
                    continue
                ak, av = kind_of(rv[0])
                if ak != "Adt":
                    continue
                if b is None:
                    b = S.ctx.body(inst)
                if v[0]["projection"]:
                    continue
                tname = prog.ty(b.locals[v[0]["local"]]["ty"]).s
                for key in want:
                    if tname.startswith(key + "<"):
                        found[key].add(inst.def_name.replace("falcon_rust::falcon::", ""))
    for key, fns in want.items():
        got = found[key]
        got = {g for g in got if not (g.startswith("<") and g.endswith("Clone>::clone"))}     # clones copy an existing (valid) value
        R.check(got == set(fns), rule, key, f"constructed only in {sorted(got)}",
                f"constructed in {sorted(got)}, expected exactly {sorted(fns)} — the length/canonicity invariant of its fields is only established for those",
                key=f"census|{key}")
    R.floor("constructor sites", sum(len(v) for v in found.values()), 5)


def run(R):
    S = Session()
    ctx = S.ctx
    setup(S, R.tier, R)
    R.trust("rustc MIR (nightly, dev profile: overflow checks + debug assertions on)", "E0 fact extractor", "E2 abstract interpreter", "E2 model table (fv/models.py)")
    state = {"skip1024": False}
    ctx.no_inline = lambda inst: "::from_b0" in inst.name
    total = 0
    for N in (512, 1024):
        state["skip1024"] = (N == 1024 and R.tier == "quick")
        ctx.hooks["assume_transform"] = ASSUME_1024 if state["skip1024"] else None
        for kind in ("Signature", "PublicKey", "SecretKey"):
            res = run_decoder(S, R, kind, N, state)
            # shape of accepted values (type invariants used below and by C05/C06)
            variants, val = res["exact"]
            if kind == "Signature" and val is not None and 0 in val[0].vs:
                sig = val[0].vs[0][0]
                st2 = val[1]
                ok = type(sig) is Ag and type(sig.f[1]) is Sq and st2.const(sig.f[1].len) == SPEC[N]["sig_bytelen"] - 41 and st2.const(sig.f[0].len) == 40
                R.check(ok, "C03-invariant", f"Signature::<{N}>::from_bytes", f"accepted signatures have a 40-byte salt and exactly {SPEC[N]['sig_bytelen'] - 41} compressed bytes",
                        key=f"siglen|{N}")
            if kind == "PublicKey" and val is not None and 0 in val[0].vs:
                pk = val[0].vs[0][0]
                st2 = val[1]
                try:
                    h = pk.f[0].f[0]
                    ln = st2.itv[h.len.vid]
                    e = st2.itv[h.elem.f[0].vid]
                    ok = ln == (N, N) and 0 <= e[0] and e[1] <= Q - 1
                except Exception:
                    ok, ln, e = False, None, None
                R.check(ok, "C03-invariant", f"PublicKey::<{N}>::from_bytes", f"accepted keys hold exactly {N} canonical coefficients (len {ln}, range {e})", key=f"pklen|{N}")
        outs, n = run_verify(S, R, N, state)
        total += n
    constructor_census(S, R)
    R.analysed["functions_analysed"] = len(ctx.analysed_fns)
    R.analysed["abstract_block_executions"] = ctx.steps
    R.analysed["models_used"] = sorted(ctx.models_used)
    R.analysed["unmodelled_callees"] = dict(list(ctx.unmodelled.items())[:20])
    R.analysed["unsupported"] = S.unsupported[:10]
    R.floor("distinct obligations", len({o["key"] for o in R.obl}), 140)
    R.floor("functions analysed", len(ctx.analysed_fns), 30)
