"""C07 — signature compression is lossless and canonical (decided clauses).

 (1) decompress / compress_coefficient / compress cannot panic on the stated domain (compress's byte indexing
     rests on a prefix-sum invariant that this domain cannot express: assumed, with the argument);
 (2) every value decompress can push lies in [-12159, 12159] (both push sites);
 (3) negative zero: at every push site, a coefficient with sign bit 1 and magnitude 0 either cannot reach the
     push or has set the invalid-encoding flag, and `Some` is returned only with that flag clear;
 (4) padding: between the last coefficient and `Some` there are (at least) two data-dependent rejection
     tests (remaining bits of the current byte; all following bytes);
 (5) budget: with 9-bit coefficients, compress succeeds when the bits fit the budget exactly and fails when
     one more bit would be needed (boundary instances, for all vectors in the class);
 (6) codec constants: for every unary length k in 0..94 and both signs, compress_coefficient assigns
     9 + k bits and byte (sign << 7 | low 7 bits) — the layout decompress reads;
 (7) the reader does not stop earlier than the writer: the cursor after the last terminator bit may reach
     the end of the buffer (an exactly-full encoding is readable).
Not decided: decompress(compress(v)) = v and compress(decompress(x)) = x as functions on all inputs."""
from fv.absint import St, Pt, Ag, I, Sq, En, Md
from fv.mir import kind_of
from .common import Session, record_obligations
from . import c03

LEVEL = "other"
TECHNIQUE = "abstract interpretation of the codec: obligations, pushed-value ranges, trace-partitioned negative-zero check, boundary/partition instances of the budget and layout"
EXPLANATION = ("decompress is analysed for every byte string of length <= 2^32 and n in [1, 2^16]; compress_coefficient for every coefficient class; compress on "
               "boundary classes. Full functional inverse-ness of the two bit-packing loops is not decided (another technique family).")

PREFIX_SUM = ("compress: indices into `bytes` are bounded by the prefix sum of the coefficient lengths (counter <= total_length - 9*(coefficients left) <= 8*L - 9), "
              "established by the `total_length > byte_length*8 => None` test; intervals/difference bounds cannot express a prefix sum — DESIGN.md C07-1")
DEC = "falcon_rust::encoding::decompress"


def accumulators(body):
    """locals updated as x = x | t (boolean or-accumulators)"""
    out = set()
    for bb in body.blocks:
        for st in bb["statements"]:
            k, v = kind_of(st["kind"])
            if k == "Assign" and not v[0]["projection"]:
                rk, rv = kind_of(v[1])
                if rk == "BinaryOp" and rv[0] == "BitOr":
                    for o in (rv[1], rv[2]):
                        ok_, ov = kind_of(o)
                        if ok_ in ("Copy", "Move") and not ov["projection"] and ov["local"] == v[0]["local"] and body.local_ty(v[0]["local"]).tag == "Bool":
                            out.add(v[0]["local"])
    return out


def run(R):
    S = Session()
    ctx, E, prog = S.ctx, S.E, S.prog
    c03.setup(S, R.tier, R)
    R.trust("rustc MIR (nightly, dev profile)", "E0 fact extractor", "E2 abstract interpreter and models of bit-vec / Vec / iterators")
    usz = ctx.usize_ty()
    i16 = S.ty("i16")
    dec = S.find("encoding::decompress")
    body = ctx.body(dec)
    accs = accumulators(body)
    # ---- (1)(2)(3)(4)(7) decompress, partitioned on boolean branches
    ctx.partition_fns = lambda inst: inst is dec
    pushes, somes, dbranches, cursors = [], [], [], []
    dmf_sites = sorted(bi for bi, c, a, d in body.call_sites(lambda c: "div_mod_floor" in c.name))
    body.dominators()
    rpo_idx = {b: i for i, b in enumerate(body.rpo)}
    last_dmf = max(dmf_sites, key=lambda b: rpo_idx.get(b, -1)) if dmf_sites else None
    push_sites = sorted((bi for bi, c, a, d in body.call_sites(lambda c: c.name.endswith("::push") and "Vec" in c.name)), key=lambda b: rpo_idx.get(b, -1))

    E.loop_depth(body)
    loops = body._loop_bodies
    outer = [h for h, bs in loops.items() if push_sites and push_sites[0] in bs]
    outer_body = max((loops[h] for h in outer), key=len) if outer else set()
    after_outer = max((rpo_idx.get(b, -1) for b in outer_body), default=-1)
    last_loops = {h: bs for h, bs in loops.items() if rpo_idx.get(h, -1) > after_outer}
    # the cursor variable: first argument of the last div_mod_floor call
    cursor_local = None
    if last_dmf is not None:
        tk, tv = kind_of(body.blocks[last_dmf]["terminator"]["kind"])
        ok_, ov = kind_of(tv["args"][0])
        if ok_ in ("Copy", "Move"):
            tmp = ov["local"]
            for (bi_, si_, rv_, proj_) in body.defs().get(tmp, []):
                rk, rvv = kind_of(rv_)
                if rk == "Ref" and not rvv[2]["projection"]:
                    cursor_local = rvv[2]["local"]
    edges, push_cursor, exits = [], [], []
    # loops that read the bit vector by index (the unary runs), and blocks from which `Some` is reachable
    bit_index_blocks = {bi for bi, c, a, d in body.call_sites(lambda c: "BitVec" in c.name and "Index" in c.name)}
    unary_loops = {h: bs for h, bs in loops.items() if bs & bit_index_blocks and not (push_sites and push_sites[0] in bs and len(bs) == len(outer_body))}
    some_blocks = set()
    for bi, bb in enumerate(body.blocks):
        for stt_ in bb["statements"]:
            k_, v_ = kind_of(stt_["kind"])
            if k_ == "Assign" and v_[0]["local"] == 0 and not v_[0]["projection"]:
                rk_, rv_ = kind_of(v_[1])
                if rk_ == "Aggregate":
                    ak_, av_ = kind_of(rv_[0])
                    if ak_ == "Adt" and av_[1] == 1:
                        some_blocks.add(bi)
    reach_some = set()
    work_ = list(some_blocks)
    while work_:
        b_ = work_.pop()
        if b_ in reach_some:
            continue
        reach_some.add(b_)
        work_.extend(body.pred[b_])

    def cursor_bound(fr, stt):
        if cursor_local is None:
            return None
        idx = stt.store.get((fr.id, cursor_local))
        bl = [v for k_, v in stt.store.items() if k_[0] == fr.id and type(v) is Md and v.kind == "bitvec"]
        if type(idx) is I and bl:
            return stt.bound(idx.vid, bl[0].d["len"].vid)
        return None

    def obs(ev, **kw):
        if ctx.quiet:
            return
        fr = kw.get("frame")
        if fr is None or fr.inst is not dec:
            return
        stt = kw["st"]
        if ev == "edge":
            for h, bs in unary_loops.items():
                if kw["bb"] in bs and kw["target"] not in bs and kw["target"] in reach_some:
                    exits.append((kw["bb"], cursor_bound(fr, stt)))
            for h, bs in last_loops.items():
                if kw["bb"] in bs and kw["target"] in bs and body.local_ty(cursor_local if cursor_local is not None else 0).tag == "Uint":
                    edges.append((kw["bb"], kw["target"], cursor_bound(fr, stt)))
            return
        if ev == "enter" and kw["callee"].name.endswith("::push"):
            lp = tuple(t[2] for t in stt.part if len(t) == 3 and t[1] == "lp" and t[0] in last_loops)
            push_cursor.append((kw["bb"], cursor_bound(fr, stt), lp))
        if ev == "enter" and kw["callee"].name.endswith("::push"):
            v = kw["args"][1]
            if type(v) is not I:
                return
            rec = {"bb": kw["bb"], "range": stt.itv[v.vid], "negzero": None, "acc": None}
            p = stt.prov.get(v.vid)
            if p and p[0] == "mul":
                sg, mag = p[1]
                # the sign is the factor confined to {-1, 1}
                if not (stt.itv[sg][0] >= -1 and stt.itv[sg][1] <= 1):
                    sg, mag = mag, sg
                comps = None
                if stt.itv[sg][0] >= -1 and stt.itv[sg][1] <= 1:
                    if stt.itv[mag] == (0, 0):
                        comps = []
                    else:
                        pm = stt.prov.get(mag)
                        if pm and pm[0] == "bitor":
                            x, y = pm[1]
                            px, py = stt.prov.get(x), stt.prov.get(y)
                            if px and px[0] == "shl":
                                comps = [px[1][0], y]
                            elif py and py[0] == "shl":
                                comps = [py[1][0], x]
                        if comps is None and stt.itv[mag][0] > 0:
                            comps = "nonzero"
                if comps == "nonzero":
                    rec["negzero"] = False
                elif comps is not None and all(t in stt.itv for t in comps):
                    t2 = stt.copy()
                    try:
                        E.set_itv(t2, sg, -1, -1)
                        for t in comps:
                            E.set_itv(t2, t, 0, 0)
                        E.set_itv(t2, mag, 0, 0)
                        feasible = True
                    except Exception:
                        feasible = False
                    rec["negzero"] = feasible
                    if feasible:
                        vals = []
                        for a_ in accs:
                            av = t2.store.get((fr.id, a_))
                            if type(av) is I:
                                vals.append(t2.itv[av.vid])
                        rec["acc"] = vals
            pushes.append(rec)
        elif ev == "assign" and kw["place"]["local"] == 0 and not kw["place"]["projection"] and type(kw["value"]) is En and 1 in kw["value"].vs:
            vals = []
            for a_ in accs:
                av = stt.store.get((fr.id, a_))
                if type(av) is I:
                    vals.append(stt.itv[av.vid])
            somes.append(vals)
        elif ev == "branch":
            d = kw["discr"]
            if d.vid in stt.taint:
                dbranches.append(kw["bb"])
        elif ev == "enter" and kw["bb"] == last_dmf:
            a0 = kw["args"][0]
            try:
                idx = E.load(stt, a0.key, a0.proj)
                bl = [v for k_, v in stt.store.items() if k_[0] == fr.id and type(v) is Md and v.kind == "bitvec"]
                if type(idx) is I and bl:
                    cursors.append(stt.bound(idx.vid, bl[0].d["len"].vid))
            except Exception:
                pass
    ctx.observers.append(obs)
    ctx.hooks["peel_filter"] = lambda fr, h: fr.inst is dec and h in last_loops
    st = St()
    x = S.bytes_slice(st, "x", 0, 1 << 32)
    n0 = len(ctx.obl)
    outs = S.run(dec, [x, ctx.mk_int(st, 1, 1 << 16, usz)], st)
    ctx.observers.remove(obs)
    ctx.hooks.pop("peel_filter", None)
    ctx.partition_fns = None
    record_obligations(R, "C07-asserts", S.obligations_since(n0), site_prefix="[decompress, len <= 2^32, n in [1,2^16]] ")
    site = "decompress"
    R.check(len(outs) >= 1, "C07-asserts", site, "analysed for every input of the stated domain", key="dec-ret", nontrivial=False)
    sites = sorted({p["bb"] for p in pushes})
    R.check(len(sites) >= 2 or len(push_sites) == len(sites), "C07-range", site, f"{len(sites)} push site(s) observed (of {len(push_sites)} in the body)", key="pushsites")
    for bb in sites:
        rs = [p["range"] for p in pushes if p["bb"] == bb]
        lo, hi = min(r[0] for r in rs), max(r[1] for r in rs)
        where = body.span_of(bb)
        R.check(-12159 <= lo and hi <= 12159, "C07-range", f"{site} push at {where}", f"pushed coefficient in [{lo},{hi}] within [-12159,12159]",
                f"pushed coefficient may be in [{lo},{hi}], outside the canonical range [-12159,12159]", key=f"range|{push_sites.index(bb) if bb in push_sites else bb}")
    # (3) negative zero: decided semantically by clause_negzero_partitions (known-bits domain). The earlier clause, which
    # decomposed the pushed value into sign/high/low and looked for an "invalid" flag variable, depended on how the
    # decoder is written (it fired on `if cond { abort = true }` in place of `abort |= cond`) and was withdrawn.
    # (4) padding: decided semantically by clause_padding_partitions (known-bits domain); the earlier presence rule
    # ("at least two data-dependent tests after the last coefficient") fired on behaviour-preserving rewrites of the
    # scans with Iterator::any and was withdrawn
    # (7), (7b), (8) — cursor bound at the end of the buffer, terminator read inside the buffer: decided semantically by
    # clause_fit_partitions. The structural versions (cursor variable = first argument of the last div_mod_floor call, one
    # unary loop per push site) fired when the unary run was moved into a helper and were withdrawn.
    # ---- layout of the writer, per coefficient class, through `compress` itself (clause_layout_compress below); the helper
    # compress_coefficient, where it exists as a function, only contributes its panic obligations for every i16
    cc = [i for i in S.prog.inst if i.local and i.body is not None and i.name.endswith("encoding::compress_coefficient")]
    if cc:
        st = St()
        n0 = len(ctx.obl)
        S.run(cc[0], [ctx.top_int(st, i16)], st)
        record_obligations(R, "C07-asserts", S.obligations_since(n0), site_prefix="[compress_coefficient, any i16] ")
    clause_layout_compress(R)
    # ---- compress: obligations on the domain, and budget boundary instances
    comp = S.find("encoding::compress")
    st = St()
    v = S.cell(st, "v", Sq(ctx.top_int(st, i16, taint=True), ctx.mk_int(st, 0, 1 << 16, usz)))
    n0 = len(ctx.obl)
    S.run(comp, [v, ctx.mk_int(st, 0, 1 << 32, usz)], st)

    def assumed(o):
        if o.fn.endswith("encoding::compress") and o.kind in ("BoundsCheck", "Overflow"):
            return PREFIX_SUM
        if o.kind in ("BoundsCheck", "Overflow") and o.fn.startswith("falcon_rust::encoding::") and any(p_.endswith("encoding::compress") for p_ in o.ctxpath):
            return PREFIX_SUM          # the same byte indexing, moved into a local helper of compress
        if "arith.rs" in o.span and o.kind == "Overflow":
            return PREFIX_SUM
        return None
    record_obligations(R, "C07-asserts", S.obligations_since(n0), assumed, site_prefix="[compress, len(v) <= 2^16, L <= 2^32] ")
    cases = [(8, 9, True), (8, 8, False), (9, 11, True), (9, 10, False), (1, 2, True), (1, 1, False)]
    for (n, L, fits) in cases:
        st = St()
        v = S.cell(st, "v", Sq(ctx.mk_int(st, -127, 127, i16, taint=True), ctx.const_int(st, n, usz)))
        outs = S.run(comp, [v, ctx.const_int(st, L, usz)], st)
        variants = set()
        for r, _ in outs:
            if type(r) is En:
                variants |= set(r.vs)
        some = 1 in variants
        R.check(some == fits, "C07-budget", f"compress({n} coefficients of 9 bits, {L} bytes)",
                f"{9 * n} bits into {8 * L}: {'Some is reachable' if fits else 'only None'} as the budget rule requires",
                f"{9 * n} bits into {8 * L} bits: Some {'is not' if fits else 'is'} reachable — compress does not fail exactly when the encoding does not fit",
                key=f"budget|{n}|{L}")
    R.analysed["push_observations"] = len(pushes)
    R.analysed["unsupported"] = S.unsupported[:10]
    R.floor("push observations", len(pushes), 2)
    clause_padding_partitions(R)
    clause_negzero_partitions(R)
    clause_fit_partitions(R)


def clause_layout_compress(R):
    """the writer's bit layout, for every coefficient class (unary length k = 0..94, both signs; the seven low bits are
    arbitrary): compress(&[c], ceil((9+k)/8)) returns Some(bytes) with bytes[0] = sign<<7 | low7 and the remaining bytes
    EXACTLY  0^k 1 0..0 ; with one byte less it returns None; and compress(&[c, 77], ..) places the second coefficient's
    nine bits 0 1001101 1 immediately after the first terminator (every bit alignment occurs as k varies). Independent of
    how compress is organised (helper function or not)."""
    S = Session()
    ctx = S.ctx
    ctx.hooks["may_panic"] = lambda inst: False
    ctx.hooks["exact_collect_max"] = 8
    ctx.hooks["exact_int_sum"] = True
    ctx.hooks["kbits_eager"] = True
    comp = S.find("encoding::compress")
    i16, usz = S.ty("i16"), ctx.usize_ty()
    bad, nk = [], 0

    def out_bytes(outs):
        """(Some-bytes as list of intervals | None, None reachable?)"""
        some, none = None, False
        for r, s2 in outs:
            if type(r) is not En:
                continue
            if 0 in r.vs:
                none = True
            if 1 in r.vs:
                sq = r.vs[1][0]
                n = s2.const(sq.len)
                if n is not None and sq.head and len(sq.head) >= n:
                    some = [s2.itv[sq.head[i].vid] for i in range(n)]
                else:
                    some = "unknown"
        return some, none
    second = "0" + format(77, "07b") + "1"
    for k in range(0, 95):
        for sign in (1, -1):
            lo, hi = (128 * k, 128 * k + 127) if sign == 1 else (-(128 * k + 127), -max(128 * k, 1))
            b0 = (0, 127) if sign == 1 else (128, 255)
            for two in (False, True):
                bits = "0" * k + "1" + (second if two else "")
                L = 1 + (len(bits) + 7) // 8
                bits = bits + "0" * (8 * (L - 1) - len(bits))
                want = [b0] + [(int(bits[8 * j:8 * j + 8], 2),) * 2 for j in range(L - 1)]
                st = St()
                elems = {0: ctx.mk_int(st, lo, hi, i16)}
                if two:
                    elems[1] = ctx.const_int(st, 77, i16)
                v = S.cell(st, "v", Sq(ctx.mk_int(st, -12159, 12159, i16), ctx.const_int(st, len(elems), usz), elems))
                outs = S.run(comp, [v, ctx.const_int(st, L, usz)], st)
                nk += 1
                some, none = out_bytes(outs)
                ok = isinstance(some, list) and len(some) == L and b0[0] <= some[0][0] and some[0][1] <= b0[1] and some[1:] == want[1:]
                if not ok:
                    bad.append(f"k={k} sign={sign} {'two coefficients' if two else 'one coefficient'}: bytes {some if not isinstance(some, list) else some[:6]}, expected {want[:6]}")
                if not two:
                    st = St()
                    v = S.cell(st, "v", Sq(ctx.mk_int(st, -12159, 12159, i16), ctx.const_int(st, 1, usz), {0: ctx.mk_int(st, lo, hi, i16)}))
                    outs = S.run(comp, [v, ctx.const_int(st, L - 1, usz)], st)
                    nk += 1
                    some2, _ = out_bytes(outs)
                    if some2 is not None and 8 * (L - 1) < 9 + k:
                        bad.append(f"k={k} sign={sign}: {9 + k} bits are written into {L - 1} byte(s)")
    R.check(not bad, "C07-layout", "compress (one and two coefficients, every coefficient class)",
            f"{nk} abstract runs: byte 0 = sign<<7 | low7, then 0^k 1, then the next coefficient or zero padding, exactly; one byte less is refused",
            f"{len(bad)} class(es) with a different layout: {bad[:3]}", key="layout")
    R.floor("layout runs of compress", nk, 570)
    R.analysed.setdefault("unsupported", []).extend(S.unsupported[:5])


def clause_padding_partitions(R):
    """(4b) padding, semantically: decompress(x, 1) is interpreted on partitioned ABSTRACT inputs built with a known-bits
    domain: byte 0 is any byte (sign + 7 low bits), byte 1 has `h` known zero bits, the terminator bit, and exactly one
    further bit known to be 1 (all other bits unknown) — for every h and every position of that bit the union of the
    partitions is the set of all inputs whose padding inside the terminator's byte is not all-zero; `Some` must be
    unreachable in each. Likewise with a clean byte 1 and a following byte in [1, 255]. Positive control: with all padding
    known zero `Some` is reachable. Both with the terminator's byte being the last byte of the buffer and not."""
    S = Session()
    ctx = S.ctx
    ctx.hooks["may_panic"] = lambda inst: False
    dec = S.find("encoding::decompress")
    ctx.hooks["unroll"] = lambda fr, h: 9 if fr.inst is dec else 0      # the bit-level padding scan has at most 7 trips: keep them apart
    ctx.hooks["exact_anyall"] = True                                     # the same scan written with Iterator::any
    ctx.hooks["exact_collect_max"] = 8
    u8, usz = S.ty("u8"), ctx.usize_ty()
    nrun = 0

    def run_case(b1_mask, b1_val, b1_itv, tail):
        """tail: list of (lo, hi) for the bytes after byte 1"""
        nonlocal nrun
        nrun += 1
        st = St()
        b0 = ctx.mk_int(st, 0, 255, u8, taint=True)
        b1 = ctx.mk_int(st, b1_itv[0], b1_itv[1], u8, taint=True)
        st.prov[b1.vid] = ("kbits", (), (b1_mask, b1_val))
        hd = {0: b0, 1: b1}
        for i, (lo, hi) in enumerate(tail):
            hd[2 + i] = ctx.mk_int(st, lo, hi, u8, taint=True)
        x = S.cell(st, "x", Sq(ctx.top_int(st, u8, taint=True), ctx.const_int(st, len(hd), usz), hd))
        outs = S.run(dec, [x, ctx.const_int(st, 1, usz)], st)
        return any(type(r) is En and 1 in r.vs for r, _ in outs), len(outs)
    bad = []
    controls = 0
    for tail in ([], [(0, 0)]):
        where = "terminator in the last byte" if not tail else "terminator's byte followed by a zero byte"
        for h in range(0, 8):
            term = 1 << (7 - h)
            zeros_before = ((1 << h) - 1) << (8 - h)          # the h bits before the terminator: known 0
            # positive control: all padding known zero
            some, n = run_case(0xFF, term, (term, term), tail)
            if some:
                controls += 1
            else:
                bad.append(f"[{where}, h={h}] a clean encoding is rejected (control)")
            for k in range(h + 1, 8):
                pad = 1 << (7 - k)
                mask = zeros_before | term | pad
                val = term | pad
                lo = term | pad
                hi = term | ((1 << (7 - h)) - 1)
                some, n = run_case(mask, val, (lo, hi), tail)
                if some:
                    bad.append(f"[{where}] terminator after {h} zero(s), padding bit {k} of that byte set: `Some` is reachable")
    for h in range(0, 8):
        term = 1 << (7 - h)
        for tail in ([(1, 255)], [(0, 0), (1, 255)], [(1, 255), (0, 0)]):
            some, n = run_case(0xFF, term, (term, term), tail)
            if some:
                bad.append(f"terminator after {h} zero(s), clean byte, following bytes {tail}: `Some` is reachable")
    R.check(not bad, "C07-padding", "decompress(x, 1): padding partitions (known-bits domain)",
            f"`Some` is unreachable in every partition with a set padding bit ({nrun} abstract runs; {controls} clean controls reach `Some`)",
            f"{len(bad)} partition(s) accept set padding bits, e.g. {bad[:2]}", key="padding-partitions", data={"bad": bad[:10]})
    R.floor("padding partitions run", nrun, 96)
    R.floor("clean controls reaching Some", controls, 16)
    R.analysed.setdefault("unsupported", []).extend(S.unsupported[:5])


def bytes_from_bits(S, st, bits, extra_unknown_bytes=0):
    """bytes (most significant bit first) from a string over {'0','1','?'}; '?' is an unknown bit (known-bits domain)"""
    ctx = S.ctx
    u8 = S.ty("u8")
    bits = bits + "?" * ((-len(bits)) % 8)
    heads = {}
    for k in range(len(bits) // 8):
        chunk = bits[8 * k:8 * k + 8]
        mask = int("".join("1" if c != "?" else "0" for c in chunk), 2)
        val = int("".join("1" if c == "1" else "0" for c in chunk), 2)
        lo, hi = val, val | (0xFF & ~mask)
        b = ctx.mk_int(st, lo, hi, u8, taint=True)
        if mask != 0xFF:
            st.prov[b.vid] = ("kbits", (), (mask, val))
        heads[k] = b
    n = len(heads)
    for k in range(extra_unknown_bytes):
        heads[n + k] = ctx.mk_int(st, 0, 255, u8, taint=True)
    return Sq(ctx.top_int(st, u8, taint=True), ctx.const_int(st, len(heads), ctx.usize_ty()), heads)


def clause_negzero_partitions(R):
    """negative zero, semantically: decompress(x, n) on every input that starts with a valid coefficient (1 + 128*h, any
    h in 0..7, so that the next coefficient starts at every bit alignment) followed by the encoding of -0 (sign 1, low bits
    0000000, terminator) — as the last coefficient (n = 2) and as a middle coefficient (n = 3), everything after it unknown.
    `Some` must be unreachable. Control: with +0 in the same place `Some` is reachable."""
    S = Session()
    ctx = S.ctx
    ctx.hooks["may_panic"] = lambda inst: False
    ctx.hooks["exact_anyall"] = True
    ctx.hooks["exact_collect_max"] = 8
    dec = S.find("encoding::decompress")
    ctx.hooks["unroll"] = lambda fr, h: 12 if fr.inst is dec else 0
    usz = ctx.usize_ty()
    bad, ctl, nrun = [], 0, 0
    for n in (2, 3):
        for h in range(8):
            first = "0" + "0000001" + "0" * h + "1"
            for sign, want_some in (("1", False), ("0", True)):
                zero = sign + "0000000" + "1"
                st = St()
                x = S.cell(st, "x", bytes_from_bits(S, st, first + zero, extra_unknown_bytes=2 if n == 3 else 1))
                outs = S.run(dec, [x, ctx.const_int(st, n, usz)], st)
                nrun += 1
                some = any(type(r) is En and 1 in r.vs for r, _ in outs)
                if want_some:
                    ctl += some
                    if not some:
                        bad.append(f"[n={n}, alignment {(9 + h) % 8}] a valid +0 at that place is rejected (control)")
                elif some:
                    bad.append(f"[n={n}, {'last' if n == 2 else 'middle'} coefficient, bit alignment {(9 + h) % 8}] -0 (sign 1, magnitude 0) is accepted")
    # -0 in every coefficient slot j = 2 .. 15 (after j coefficients of nine bits), as the last coefficient and followed by
    # one more coefficient: a rejection that depends on the position in the buffer is reported
    c9 = "0" + "0000001" + "1"
    ctx.hooks["unroll"] = lambda fr, h: 24 if fr.inst is dec else 0
    for j in range(2, 16):
        for n in (j + 1, j + 2):
            for sign, want_some in (("1", False), ("0", True)):
                if want_some and n == j + 2:
                    continue
                st = St()
                x = S.cell(st, "x", bytes_from_bits(S, st, c9 * j + sign + "0000000" + "1", extra_unknown_bytes=2 if n == j + 2 else 1))
                outs = S.run(dec, [x, ctx.const_int(st, n, usz)], st)
                nrun += 1
                some = any(type(r) is En and 1 in r.vs for r, _ in outs)
                if want_some:
                    ctl += some
                    if not some:
                        bad.append(f"[n={n}, slot {j}] a valid +0 at that place is rejected (control)")
                elif some:
                    bad.append(f"[n={n}, slot {j} ({'last' if n == j + 1 else 'not last'})] -0 (sign 1, magnitude 0) is accepted")
    R.check(not bad, "C07-negzero", "decompress: negative-zero partitions (known-bits domain)",
            f"`Some` is unreachable whenever a coefficient is encoded as -0, at every bit alignment, last or not ({nrun} abstract runs, {ctl} +0 controls reach `Some`)",
            f"{len(bad)} partition(s): {bad[:3]}", key="negzero-partitions", data={"bad": bad[:10]})
    R.floor("negative-zero partitions run", nrun, 74)
    R.floor("+0 controls reaching Some", ctl, 30)
    R.analysed.setdefault("unsupported", []).extend(S.unsupported[:5])


def clause_fit_partitions(R, rule="C07-fit"):
    """reader/writer agreement at the buffer's end, the missing terminator and the unary-run cap, semantically
    (known-bits partitions of decompress's input; `?` = unknown bit):
      accept (Some reachable):  last terminator ON the last buffer bit, after a non-empty run and after an empty run (n = 1, 2);
                                a run of 94 zeros (the largest magnitude, 12159)
      reject (only None):       buffer ends inside the unary run of the last coefficient (no terminator), for n = 1 and n = 2;
                                buffer ends inside a non-final coefficient; a run of 95 zeros
    These replace the earlier structural clauses (cursor bound at the last div_mod_floor call, one unary loop per push site),
    which fired when the unary run was moved into a helper function."""
    S = Session()
    ctx = S.ctx
    ctx.hooks["may_panic"] = lambda inst: False
    ctx.hooks["exact_anyall"] = True
    ctx.hooks["exact_collect_max"] = 8
    dec = S.find("encoding::decompress")
    ctx.hooks["unroll"] = lambda fr, h: 100 if fr.inst.name.startswith("falcon_rust::encoding::") else 0
    ctx.hooks["rec_depth"] = 1
    usz = ctx.usize_ty()
    c9 = "0" + "0000001" + "1"                         # +1, nine bits
    cases = [
        ("n=1: terminator on the last bit after 7 zeros", 1, "????????" + "00000001", 0, True),
        ("n=1: terminator on the last bit after 15 zeros", 1, "????????" + "0" * 15 + "1", 0, True),
        ("n=2: second coefficient's terminator on the last bit, empty run", 2, "0" + "0000001" + "0" * 6 + "1" + "????????" + "1", 0, True),
        ("n=2: second coefficient's terminator on the last bit after 8 zeros", 2, "0" + "0000001" + "0" * 6 + "1" + "????????" + "0" * 8 + "1", 0, True),
        ("n=1: one byte of zero padding after the terminator", 1, "????????" + "1" + "0000000", 1 - 1, True),
        ("n=1: run of 94 zeros", 1, "????????" + "0" * 94 + "1", 0, True),
        ("n=2: run of 20 zeros in the first coefficient", 2, "????????" + "0" * 20 + "1" + c9, 0, True),
        ("n=2: run of 94 zeros in the first coefficient", 2, "????????" + "0" * 94 + "1" + c9, 0, True),
        ("n=3: run of 9 zeros in the second coefficient", 3, c9 + "????????" + "0" * 9 + "1" + c9, 0, True),
        ("n=1: buffer ends inside the unary run", 1, "????????" + "00000000", 0, False),
        ("n=1: buffer ends inside the unary run (two bytes of zeros)", 1, "????????" + "0" * 16, 0, False),
        ("n=2: buffer ends inside the last coefficient's unary run", 2, c9 + "????????" + "0" * 7, 0, False),
        ("n=2: buffer ends right after the last coefficient's low bits", 2, "0" + "0000001" + "0" * 7 + "1" + "????????", 0, False),
        ("n=2: buffer ends inside the first coefficient's unary run", 2, "????????" + "0" * 8, 0, False),
        ("n=3: buffer ends inside the second coefficient's unary run", 3, c9 + "????????" + "0" * 7, 0, False),
        ("n=1: run of 95 zeros", 1, "????????" + "0" * 95 + "1", 0, False),
        ("n=2: run of 95 zeros in the first coefficient", 2, "????????" + "0" * 95 + "1" + c9, 0, False),
    ]
    bad = []
    for name, n, bits, extra, want in cases:
        st = St()
        x = S.cell(st, "x", bytes_from_bits(S, st, bits.replace(" ", ""), extra_unknown_bytes=0))
        # padding bits produced by rounding up to a byte are unknown in bytes_from_bits; make them zero (valid padding)
        pad = (-len(bits)) % 8
        if pad:
            st = St()
            x = S.cell(st, "x", bytes_from_bits(S, st, bits + "0" * pad))
        outs = S.run(dec, [x, ctx.const_int(st, n, usz)], st)
        some = any(type(r) is En and 1 in r.vs for r, _ in outs)
        if some != want:
            bad.append(f"{name}: `Some` is {'reachable' if some else 'unreachable'}, expected {'reachable' if want else 'unreachable'}")
    R.check(not bad, rule, "decompress: end-of-buffer / terminator / run-cap partitions (known-bits domain)",
            f"{len(cases)} partitions: an encoding that fills the buffer exactly is readable, one without terminator or with a 95-zero run is not",
            f"{len(bad)} partition(s): {bad[:3]}", key="fit-partitions", data={"bad": bad})
    R.floor("fit partitions run", len(cases), 17)
    R.analysed.setdefault("unsupported", []).extend(S.unsupported[:5])
