"""symbolic float expressions: the abstract interpreter labels every f64 with the expression tree that
produced it (leaves: named inputs, constants, integer values); rules compare such a tree with the formula
the specification prescribes by evaluating both at random points (polynomial identity testing) — so any
algebraically equivalent rewrite of the code is accepted and any other formula is rejected with
overwhelming probability. Nothing of the crate is executed: the tree is read off the MIR."""
import math
import random

from fv.absint import St, Pt, Ag, I, Sq, En, Md, Fl, Top

INF = math.inf


class NotSymbolic(Exception):
    pass


def leaves(tag, acc=None):
    acc = set() if acc is None else acc
    if isinstance(tag, tuple):
        if tag[0] == "int":
            acc.add(tag)
        else:
            for x in tag[1:]:
                leaves(x, acc)
    elif tag is not None:
        acc.add(tag)
    return acc


def ev(tag, env, memo=None):
    """evaluate a tag tree; env maps leaf names and ('int', vid) leaves to floats (or is a callable)"""
    if memo is None:
        memo = {}
    if isinstance(tag, tuple):
        k = id(tag)
        if k in memo:
            return memo[k][1]
        v = _ev(tag, env, memo)
        memo[k] = (tag, v)
        return v
    return _ev(tag, env, memo)


def _ev(tag, env, memo):
    if tag is None:
        raise NotSymbolic("value with no symbolic expression")
    if isinstance(tag, (int, float)):
        return float(tag)
    if isinstance(tag, str) or (isinstance(tag, tuple) and tag[0] == "int"):
        v = env(tag) if callable(env) else env.get(tag)
        if v is None:
            raise NotSymbolic(f"unknown leaf {tag}")
        return v
    op = tag[0]
    if op in ("fAdd", "fSub", "fMul", "fDiv"):
        a, b = ev(tag[1], env, memo), ev(tag[2], env, memo)
        if op == "fAdd":
            return a + b
        if op == "fSub":
            return a - b
        if op == "fMul":
            return a * b
        return a / b
    if op in ("fmax", "fmin"):
        a, b = ev(tag[1], env, memo), ev(tag[2], env, memo)
        return max(a, b) if op == "fmax" else min(a, b)
    if op == "neg":
        return -ev(tag[1], env, memo)
    if op == "sqrt":
        return math.sqrt(ev(tag[1], env, memo))
    if op == "abs":
        return abs(ev(tag[1], env, memo))
    raise NotSymbolic(f"operator {op}")


def cplx(lab, lo=-INF, hi=INF):
    return Ag((Fl(lo, hi, False, lab + ".re"), Fl(lo, hi, False, lab + ".im")))


def poly(S, st, lab, n, heads=True):
    """Polynomial<Complex64> of exactly n coefficients, coefficient i labelled lab[i]"""
    usz = S.ctx.usize_ty()
    head = {i: cplx(f"{lab}[{i}]") for i in range(n)} if heads else None
    return Ag((Sq(cplx(lab), S.ctx.const_int(st, n, usz), head),))


def coeff_tags(p):
    """[(re tag, im tag)] of a Polynomial<Complex64> value with distinguished elements"""
    c = p.f[0] if type(p) is Ag and len(p.f) == 1 else p
    if type(c) is not Sq or not c.head:
        raise NotSymbolic(f"not a sequence with distinguished elements: {c}")
    out = []
    for i in sorted(c.head):
        e = c.head[i]
        if type(e) is not Ag or len(e.f) != 2 or type(e.f[0]) is not Fl:
            raise NotSymbolic(f"element {i} is {e}")
        out.append((e.f[0].tag if e.f[0].tag is not None else (e.f[0].lo if e.f[0].lo == e.f[0].hi else None),
                    e.f[1].tag if e.f[1].tag is not None else (e.f[1].lo if e.f[1].lo == e.f[1].hi else None)))
    return out


def int_root(st, vid):
    """(k, root vid) with value(vid) = k * value(root): integer negations (and value-preserving casts, which keep
    the vid) are followed through the provenance the interpreter records"""
    k = 1
    seen = 0
    while seen < 8:
        p = st.prov.get(vid)
        if p and p[0] == "neg":
            k, vid = -k, p[1][0]
            seen += 1
            continue
        break
    return k, vid


class Env:
    """random assignment of leaves, drawn lazily; complex leaf pairs `x.re` / `x.im`"""

    def __init__(self, seed, fixed=None, positive=()):
        self.r = random.Random(seed)
        self.v = dict(fixed or {})
        self.positive = positive

    def __call__(self, leaf):
        if leaf not in self.v:
            x = self.r.uniform(0.5, 2.0) * self.r.choice((-1, 1))
            if any(isinstance(leaf, str) and leaf.startswith(p) for p in self.positive):
                x = abs(x)
            self.v[leaf] = x
        return self.v[leaf]

    def c(self, name):
        return complex(self(name + ".re"), self(name + ".im"))

    def setc(self, name, z):
        self.v[name + ".re"] = z.real
        self.v[name + ".im"] = z.imag


def cev(tags, env, memo=None):
    memo = {} if memo is None else memo
    return complex(ev(tags[0], env, memo), ev(tags[1], env, memo))


def close(a, b, tol=1e-9):
    return abs(a - b) <= tol * (1.0 + abs(a) + abs(b))


def install(S, models):
    """put rule-local models in front of the model table"""
    import re
    S.ctx.models.table[:0] = [(re.compile(rx), fn) for rx, fn in models]
    S.ctx.models.cache.clear()


def felt_contract_models(S):
    """rule-local models for Felt + - * neg as the *contracts proved under C12* (for every canonical argument the
    result is canonical and its residue class is the operation on the classes), tracking exact residue-class
    polynomials; constants without a class get the class of their value"""
    from fv.absint import p_add, p_mul, p_const
    from fv.models import ret1
    from fv.oracle import Q
    ctx = S.ctx
    u32 = S.ty("u32")

    def felt_op(op):
        def f(E, st, fr, bi, callee, args, dest_ty):
            xs = [a.f[0] for a in args]
            rs = []
            for x in xs:
                r = st.res.get(x.vid)
                if r is None:
                    c = st.const(x)
                    r = p_const(c) if c is not None else None
                rs.append(r)
            tt = frozenset().union(*[st.taint.get(x.vid) or frozenset() for x in xs])
            z = ctx.mk_int(st, 0, Q - 1, u32, taint=tt if tt else False)
            if all(r is not None for r in rs):
                st.res[z.vid] = {"add": lambda: p_add(rs[0], rs[1]), "sub": lambda: p_add(rs[0], rs[1], -1), "mul": lambda: p_mul(rs[0], rs[1]), "neg": lambda: p_add({}, rs[0], -1)}[op]()
            return ret1(Ag((z,)), st)
        return f
    FE = r"^<falcon_rust::falcon_field::Felt as std::ops::"
    return [(FE + r"Add>::add$", felt_op("add")), (FE + r"Sub>::sub$", felt_op("sub")), (FE + r"Mul>::mul$", felt_op("mul")), (FE + r"Neg>::neg$", felt_op("neg"))]
