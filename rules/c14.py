"""C14 — HashToPoint is the specified SHAKE-256 rejection sampler.

Decided on the MIR of `hash_to_point` for every input string and both degrees:
 (1) the XOF is sha3's SHAKE-256, absorbed exactly once with exactly the input slice;
 (2) candidates are consecutive big-endian byte pairs of the output stream, rejected candidates consume their two bytes
     (decided on a pinned stream prefix, however the bytes are read);
 (3) the coefficient is pushed iff t in [0, 61444] (= 5q - 1), for t over the whole 16-bit range;
 (4) the pushed value is t mod q, canonical;
 (5) the result has exactly n coefficients and `n` influences nothing but the loop exit test
     (so the 512-point is a prefix of the 1024-point);
 (6) the cone of hash_to_point reaches no entropy / OS leaf (deterministic).
Not decided: SHAKE-256 itself (trusted dependency)."""
from fv.absint import St, Pt, Ag, I, Sq, Md
from fv.mir import kind_of
from fv.oracle import Q, HASH_REJECT, pqclean
from .common import Session, record_obligations, FELT
from . import effects

LEVEL = "proof"
TECHNIQUE = "abstract interpretation of hash_to_point (predicate extraction on the 16-bit sample, XOF identity, use-analysis of n) + call-graph effect analysis"
EXPLANATION = ("The accept/reject predicate is characterised for every 16-bit value by the abstract interval of t on the path that reaches the push; "
               "byte order by two abstract runs with one byte pinned to zero; the XOF by the resolved callees; determinism by the leaf set of the cone.")

H2P = "polynomial::hash_to_point"


def run(R):
    S = Session()
    core(R, S, "C14")


def core(R, S, PFX):
    ctx, E, prog = S.ctx, S.E, S.prog
    R.trust("rustc MIR (nightly)", "E0 fact extractor", "E2 abstract interpreter and models of sha3's Update/ExtendableOutput/XofReader", "sha3 crate (SHAKE-256)")
    inst = S.find(H2P)
    body = ctx.body(inst)
    ev = {"absorb": [], "squeeze": [], "new": [], "push": [], "shake": []}

    def obs(e, **kw):
        if ctx.quiet:
            return
        if e == "absorb":
            ev["absorb"].append((kw["data"], kw["frame"].inst.name))
        elif e == "squeeze":
            ev["squeeze"].append(kw["st"].const(kw["seq"].len))
        elif e == "call" and kw["frame"].inst is inst:
            nm = kw["callee"].name
            st = kw["st"]
            if nm == "falcon_rust::falcon_field::Felt::new":
                a = kw["args"][0]
                p = st.prov.get(a.vid)
                t_itv = st.itv[p[1][0]] if p and p[0] == "mod" and p[2] == Q and p[1][0] in st.itv else None
                ev["new"].append((st.itv[a.vid], p[:1] + (p[2],) if p else None, t_itv))
            elif nm.endswith("::push") and "Vec" in nm:
                v = kw["args"][1]
                ev["push"].append(st.itv[v.f[0].vid] if type(v) is Ag and type(v.f[0]) is I else None)
            elif "Shake" in nm or "sha3" in nm or "digest" in nm:
                ev["shake"].append(nm)
    ctx.observers.append(obs)

    def go(n, hook=None):
        for k in ev:
            del ev[k][:]
        ctx.hooks.pop("xof_bytes", None)
        if hook:
            ctx.hooks["xof_bytes"] = hook
        st = St()
        s = S.bytes_slice(st, "string", 0, 1 << 40)
        n0 = len(ctx.obl)
        outs = S.run(inst, [s, ctx.const_int(st, n, ctx.usize_ty())], st)
        return outs, S.obligations_since(n0)

    for n in (512, 1024):
        outs, obls = go(n)
        record_obligations(R, PFX + "-asserts", obls)
        site = f"hash_to_point n={n}"
        # (1) XOF identity and absorption
        names = sorted(set(ev["shake"]))
        R.check(len(names) >= 1 and all("Shake256" in x for x in names), PFX + "-xof", site,
                f"hash calls resolve to SHAKE-256 only: {[x.split(' as ')[-1] for x in names]}", key=f"xof|{n}")
        ab = ev["absorb"]
        ok = len(ab) == 1 and type(ab[0][0]) is Pt and ab[0][0].key == ("h", "string") and not ab[0][0].proj
        R.check(ok, PFX + "-absorb", site, "exactly one `update`, with exactly the input slice", f"absorb events: {ab}", key=f"absorb|{n}")
        R.check(bool(ev["squeeze"]), PFX + "-squeeze", site, f"the XOF reader is squeezed ({len(ev['squeeze'])} abstract read(s))", "no squeeze observed", key=f"squeeze|{n}")
        # (3),(4) predicate and reduction
        news = ev["new"]
        if not news:
            R.violation(PFX + "-pred", site, "no call to Felt::new observed on the push path", key=f"pred|{n}")
        for (arg_itv, p, t_itv) in news[:1]:
            R.check(p == ("mod", Q), PFX + "-reduce", site, f"pushed value is (t mod {Q})", f"argument provenance {p}", key=f"reduce|{n}")
            R.check(t_itv == (0, HASH_REJECT - 1), PFX + "-pred", site,
                    f"push is reached exactly for t in [0,{HASH_REJECT - 1}] out of [0,65535] (reject >= 5q = {HASH_REJECT})",
                    f"push reached for t in {t_itv}, specification: [0,{HASH_REJECT - 1}]", key=f"pred|{n}", data={"t": t_itv})
            R.check(arg_itv[0] >= 0 and arg_itv[1] <= Q - 1, PFX + "-reduce", site, f"argument of Felt::new in {arg_itv}", key=f"redrange|{n}")
        R.check(ev["push"] and all(x is not None and 0 <= x[0] and x[1] <= Q - 1 for x in ev["push"]), PFX + "-range", site,
                f"every pushed coefficient in {ev['push'][:1]} within [0,q)", key=f"range|{n}")
        # (5) length
        if outs:
            ret, rst = outs[0]
            sq = ret.f[0] if type(ret) is Ag else None
            ln = rst.itv[sq.len.vid] if type(sq) is Sq else None
            R.check(ln == (n, n), PFX + "-len", site, f"result has exactly {n} coefficients", f"length interval {ln}", key=f"len|{n}")
            e = sq.elem if type(sq) is Sq else None
            ei = rst.itv[e.f[0].vid] if type(e) is Ag else None
            R.check(ei is not None and 0 <= ei[0] and ei[1] <= Q - 1, PFX + "-range", site + " (result)", f"coefficients in {ei}", key=f"resrange|{n}")
        else:
            R.violation(PFX + "-len", site, "no return", key=f"len|{n}")
    # (2) byte order and stream consumption, by pinning a prefix of the XOF output stream (absolute positions; everything
    # after it unknown): candidates are consecutive big-endian byte pairs, a rejected candidate consumes its two bytes,
    # and the pushed values are t mod q in stream order. Independent of how the bytes are read (two at a time, one at
    # a time, through from_be_bytes, ..).
    prefix = [0x12, 0x34, 0xFF, 0xFF, 0x00, 0x07, 0xF0, 0x04, 0xF0, 0x05, 0xAB, 0xCD]
    ts = [(prefix[2 * j] << 8) | prefix[2 * j + 1] for j in range(len(prefix) // 2)]
    want = [t % Q for t in ts if t < HASH_REJECT]
    ctx.hooks["xof_stream"] = lambda i: (prefix[i], prefix[i]) if i < len(prefix) else (0, 255)
    outs, _ = go(512)
    ctx.hooks.pop("xof_stream", None)
    got = [x for x in ev["push"][:len(want)]]
    R.check(len(got) == len(want) and all(x == (w, w) for x, w in zip(got, want)), PFX + "-endian", "hash_to_point",
            f"on the pinned stream prefix {bytes(prefix).hex()} the first pushed coefficients are {want}: consecutive big-endian byte pairs, "
            f"the rejected pairs ffff and f005 consume their bytes, f004 (= 5q - 1) is accepted",
            f"pinned stream prefix {bytes(prefix).hex()}: first pushed coefficients {got}, expected {want}", key="endian")
    # threshold agrees with the reference implementation
    for n in (512, 1024):
        pq = pqclean(n)
        R.check(pq["hash_reject"] == HASH_REJECT, PFX + "-sib", f"PQClean falcon-{n} common.c", f"reference rejects w >= {pq['hash_reject']}", key=f"pq|{n}")
    # (5b) n only feeds comparisons
    uses = n_uses(body)
    R.check(uses["other"] == 0 and uses["cmp"] >= 1, PFX + "-nflow", H2P, f"parameter n is used only in {uses['cmp']} comparison(s) (loop exit)",
            f"n is also used in {uses['other']} non-comparison statement(s): {uses['where']}", key="nflow")
    # (6) determinism
    effects.cone_is_deterministic(R, prog, [inst.id], PFX + "-effects", H2P)
    ctx.observers.remove(obs)
    R.analysed["unsupported"] = S.unsupported[:10]
    R.analysed["models_used"] = sorted(ctx.models_used)
    R.floor("abstract runs (hash_to_point)", 4, 4)


def n_uses(body):
    """classify the uses of argument 2 (n) and of its plain copies"""
    copies = {2}
    changed = True
    while changed:
        changed = False
        for bb in body.blocks:
            for st in bb["statements"]:
                k, v = kind_of(st["kind"])
                if k == "Assign" and not v[0]["projection"]:
                    rk, rv = kind_of(v[1])
                    if rk == "Use":
                        ok_, ov = kind_of(rv[0])
                        if ok_ in ("Copy", "Move") and not ov["projection"] and ov["local"] in copies and v[0]["local"] not in copies:
                            copies.add(v[0]["local"])
                            changed = True
    out = {"cmp": 0, "other": 0, "where": []}

    def reads(o):
        if isinstance(o, dict):
            if set(o.keys()) >= {"local", "projection"} and o["local"] in copies:
                return True
            return any(reads(x) for x in o.values())
        if isinstance(o, list):
            return any(reads(x) for x in o)
        return False
    for bi, bb in enumerate(body.blocks):
        for si, st in enumerate(bb["statements"]):
            k, v = kind_of(st["kind"])
            if k == "Assign":
                if v[0]["local"] in copies and not v[0]["projection"]:
                    continue
                rk, rv = kind_of(v[1])
                if reads(v[1]):
                    if rk == "BinaryOp" and rv[0] in ("Eq", "Ne", "Lt", "Le", "Gt", "Ge"):
                        out["cmp"] += 1
                    else:
                        out["other"] += 1
                        out["where"].append(body.span_of(bi, si))
        tk, tv = kind_of(bb["terminator"]["kind"])
        if tk in ("Call", "SwitchInt", "Assert") and reads(tv.get("args", [])) or (tk == "SwitchInt" and reads(tv["discr"])):
            out["other"] += 1
            out["where"].append(body.span_of(bi))
    return out
