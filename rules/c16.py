"""C16 — interoperability with the reference implementation (decided: agreement of everything both sides share).

Against the vendored PQClean C sources (constants and layout only; the reference is not run):
 byte sizes (3 x 2), the norm bound and the comparison operator, the secret/public key header bytes, the
 field widths, 14-bit public-key fields with rejection of values >= q, the 61445 rejection threshold, the
 RCDT and FACCT tables, sigma_min and 1/sigma, most-significant-bit-first packing, and the signature layout
 header || 40-byte salt || compressed body (zero padded) with the documented label difference
 (0x5n here, 0x3n in the reference).
Not decided: everything dynamic — that the two verifiers accept each other's signatures."""
import math

from fv.absint import St, Pt, Ag, I, Sq, En, Md
from fv.mir import kind_of
from fv.oracle import SPEC, Q, RCDT, FACCT_C, HASH_REJECT, pqclean, f64_ulp_diff
from .common import Session
from . import c02, c03, c05, c09, c14

LEVEL = "other"
TECHNIQUE = "sibling cross-check: CTFE constants / abstractly evaluated layout of this crate against constants parsed from the vendored PQClean C sources"
EXPLANATION = ("Each shared constant or layout fact is obtained from the compiled crate (evaluated constants, abstract runs of the encoders/decoders) and from the "
               "reference's C sources by a literal parser, and compared. No reference code is executed; behavioural interoperability is not decided.")


def shift_amounts(S, inst, args_fn):
    """sequence of constant left-shift amounts applied to the literal 1 while running inst (bit order of a packer)"""
    ctx = S.ctx
    seq = []

    def obs(ev, **kw):
        if ev == "assign" and not ctx.quiet and kw["frame"].inst is inst:
            fr = kw["frame"]
            stmt = fr.body.blocks[kw["bb"]]["statements"][kw["si"]]
            k_, v_ = kind_of(stmt["kind"])
            rk, rv = kind_of(v_[1])
            if rk == "BinaryOp" and rv[0] in ("Shl", "ShlUnchecked"):
                try:
                    lhs = S.E.operand(kw["st"], fr, rv[1])
                    amt = S.E.operand(kw["st"], fr, rv[2])
                    if type(lhs) is I and kw["st"].const(lhs) == 1 and type(amt) is I:
                        seq.append(kw["st"].const(amt))
                except Exception:
                    pass
    ctx.observers.append(obs)
    st = St()
    S.run(inst, args_fn(st), st)
    ctx.observers.remove(obs)
    return seq


def run(R):
    S = Session()
    ctx, prog = S.ctx, S.prog
    c03.setup(S, R.tier, R)
    ctx.path_mode_fns = lambda inst: "CyclotomicFourier" in inst.name or "to_bytes" in inst.name
    ctx.hooks["exact_collect_max"] = 1100
    ctx.hooks["assume_transform"] = "not the subject of C16"
    ctx.no_inline = lambda inst: "::from_b0" in inst.name
    R.trust("rustc CTFE + MIR (nightly)", "E0 fact extractor", "E2 abstract interpreter", "literal parser over the vendored PQClean sources (pqcrypto-falcon in the cargo registry)")
    for N in (512, 1024):
        spec = SPEC[N]
        pq = pqclean(N)
        logn = spec["logn"]
        site = f"falcon-{N}"
        got = c02.eval_parameters(S, N)
        R.check(got["sig_bound"] == pq["l2bound"][logn], "C16-bound", site, f"norm bound {got['sig_bound']} = PQClean l2bound[{logn}]", f"bound {got['sig_bound']} vs PQClean {pq['l2bound'][logn]}", key=f"bound|{N}")
        R.check(got["sig_bytelen"] == pq["sig_bytes"], "C16-size", site + " signature", f"signature length {got['sig_bytelen']} = CRYPTO_BYTES", f"{got['sig_bytelen']} vs {pq['sig_bytes']}", key=f"sigsize|{N}")
        R.check(got["sigmin"] is not None and f64_ulp_diff(got["sigmin"], pq["sigma_min"]) <= 1, "C16-float", site + " sigma_min", f"sigma_min {got['sigmin']} = PQClean fpr_sigma_min[{logn}]",
                f"sigma_min {got['sigmin']} vs PQClean {pq['sigma_min']}", key=f"sigmin|{N}")
        R.check(got["sigma"] is not None and abs(1.0 / got["sigma"] - pq["inv_sigma"]) <= 1e-15, "C16-float", site + " sigma", f"1/sigma = {1.0 / got['sigma']} matches PQClean fpr_inv_sigma[{logn}]",
                f"1/sigma {1.0 / got['sigma'] if got['sigma'] else None} vs PQClean {pq['inv_sigma']}", key=f"sigma|{N}")
        w = c05.widths(S, N)
        # generated keys stay inside the range the reference's trim_i8 encoding can represent (-2^(bits-1) is forbidden there too)
        c05.clause_repr(R, N, [pq["max_fg_bits"][logn], pq["max_fg_bits"][logn], pq["max_FG_bits"][logn]], rule="C16-keyrange")
        R.check(w[:2] == [pq["max_fg_bits"][logn]] * 2 and w[2] == pq["max_FG_bits"][logn], "C16-width", site, f"secret-key field widths {w} = PQClean max_fg_bits / max_FG_bits", f"{w} vs {pq['max_fg_bits'][logn]}, {pq['max_FG_bits'][logn]}", key=f"width|{N}")
        # order of the three fields in the secret-key string (added after C16-r5m1: f, F, g written and read consistently):
        # the widths handed to serialize_field_element during to_bytes, in call order, are N x fg, N x fg, N x FG as in the
        # reference's trim_i8_encode calls. Decided only when the encoder goes through the helper 3N times with constant
        # widths (otherwise recorded as not decided: the clause must not fire on another spelling of the encoder).
        seqw = []

        def obsw(ev, **kw):
            if ev == "enter" and not ctx.quiet and "serialize_field_element" in kw["callee"].name and kw["args"]:
                a = kw["args"][0]
                try:
                    seqw.append(kw["st"].const(a) if type(a) is I else None)
                except Exception:
                    seqw.append(None)
        ctx.observers.append(obsw)
        try:
            stw = St()
            S.run(S.find(f"falcon::SecretKey::<{N}>::to_bytes"), [S.cell(stw, "self", c05.encoder_values(S, stw, "SecretKey", N))], stw)
        finally:
            ctx.observers.remove(obsw)
        wantw = [pq["max_fg_bits"][logn]] * (2 * N) + [pq["max_FG_bits"][logn]] * N
        if len(seqw) == 3 * N and None not in seqw:
            runs = [[seqw[0], 0]]
            for x in seqw:
                if x == runs[-1][0]:
                    runs[-1][1] += 1
                else:
                    runs.append([x, 1])
            R.check(seqw == wantw, "C16-skorder", f"SecretKey::<{N}>::to_bytes", f"field widths in write order: {2 * N} x {wantw[0]} bits (f, g) then {N} x {wantw[-1]} bits (F), the reference's order",
                    f"field widths in write order are {runs} (width, count); the reference writes {2 * N} x {wantw[0]} then {N} x {wantw[-1]}", key=f"skorder|{N}")
        else:
            R.check(True, "C16-skorder", f"SecretKey::<{N}>::to_bytes", f"not decided: {len(seqw)} helper calls with constant width seen (needs {3 * N}); field order left to C05/C06 consistency", key=f"skorder|{N}")
        # decoders' accepted headers (shared with C06) and sizes; public key: 14-bit fields, values >= q rejected
        u8 = S.ty("u8")
        fa = []

        def obs(ev, **kw):
            if ev == "enter" and not ctx.quiet and kw["callee"].name == "falcon_rust::falcon_field::Felt::new" and cur[0] == "PublicKey":
                a = kw["args"][0]
                if type(a) is I:
                    fa.append(kw["st"].itv[a.vid])
        cur = [None]
        ctx.observers.append(obs)
        for kind, L, pql, role in (("SecretKey", spec["sk_bytes"], pq["sk_bytes"], "sk"), ("PublicKey", spec["pk_bytes"], pq["pk_bytes"], "pk")):
            R.check(L == pql, "C16-size", f"{site} {kind}", f"{L} bytes = PQClean", key=f"size|{kind}|{N}")
            inst = S.find(f"falcon::{kind}::<{N}>::from_bytes")
            cur[0] = kind
            h = pq["headers"][role]
            st = St()
            head = {0: ctx.mk_int(st, h, h, u8, taint=True)}
            outs = S.run(inst, [S.bytes_slice(st, "bytes", L, L, head=head)], st)
            okv = any(type(r) is En and 0 in r.vs for r, _ in outs)
            R.check(okv, "C16-header", f"{site} {kind}", f"a {L}-byte string starting with the reference's header byte 0x{h:02x} can be decoded", f"the reference's header 0x{h:02x} is rejected", key=f"hdr|{kind}|{N}")
        ctx.observers.remove(obs)
        # signature label: documented difference 0x5n vs 0x3n
        inst = S.find(f"falcon::Signature::<{N}>::from_bytes")
        acc = []
        for h in (0x30 | logn, 0x50 | logn):
            st = St()
            head = {0: ctx.mk_int(st, h, h, u8, taint=True)}
            outs = S.run(inst, [S.bytes_slice(st, "bytes", spec["sig_bytelen"], spec["sig_bytelen"], head=head)], st)
            if any(type(r) is En and 0 in r.vs for r, _ in outs):
                acc.append(h)
        R.check(acc == [0x50 | logn] and pq["headers"]["sig"] == (0x30 | logn), "C16-siglabel", site, f"signature label here 0x{0x50 | logn:02x}, reference 0x{pq['headers']['sig']:02x}: the documented re-labelling, same log n nibble",
                f"labels accepted here {[hex(a) for a in acc]}, reference writes 0x{pq['headers']['sig']:02x}", key=f"siglabel|{N}")
        R.check(len(fa) == N and all(0 <= a[0] and a[1] <= Q - 1 for a in fa), "C16-pkfield", site, f"{N} fields of 14 bits each, values >= q rejected as in the reference's modq_decode",
                f"{len(fa)} conversions, ranges {sorted(set(fa))[:3]}", key=f"pkfield|{N}")
        # acceptance operator: accept <=> norm <= bound, as in the reference's is_short
        outs, rets, sums, dec, obls = c02.run_verify_labelled(S, N, quick1024=(N == 1024 and R.tier == "quick"))
        preds = []
        for v, stt, where in rets:
            if type(v) is I:
                a = c02.accept_set(stt, v)
                if a and a[0] in ("le", "ge"):
                    preds.append((a[0], a[2]))
        want = ("le", pq["l2bound"][logn]) if pq["is_short_op"] == "<=" else ("le", pq["l2bound"][logn] - 1)
        R.check(preds == [want], "C16-accept", f"verify::<{N}>", f"accepts exactly when the squared norm is {pq['is_short_op']} {pq['l2bound'][logn]}, the reference's is_short test",
                f"acceptance comparisons found {preds}; reference: norm {pq['is_short_op']} {pq['l2bound'][logn]}", key=f"accept|{N}")
        # MSB-first packing of the public key, idiom-independent: coefficient 0 is given one known 1-bit (position j, all
        # other bits unknown: a known-bits partition); of the 14 pushes made for it exactly the one at offset 13 - j from the
        # coefficient's first bit must be known to be 1. With all 14 bits known 0 every push is known 0.
        okb, whyb, npart = True, "", 0
        pkto = S.find(f"falcon::PublicKey::<{N}>::to_bytes")
        u32 = S.ty("u32")
        for j in list(range(14)) + [None]:
            pushes = []

            def obsp(ev, **kw):
                if ev == "enter" and not ctx.quiet and kw["callee"].name.startswith("bit_vec::BitVec") and kw["callee"].name.endswith("::push"):
                    a_ = kw["args"]
                    try:
                        bv = S.E.load(kw["st"], a_[0].key, a_[0].proj)
                        pushes.append((kw["st"].const(bv.d["len"]), kw["st"].itv[a_[1].vid]))
                    except Exception:
                        pushes.append((None, None))
            ctx.observers.append(obsp)
            stp = St()
            x0 = ctx.mk_int(stp, (1 << j) if j is not None else 0, (1 << 14) - 1 if j is not None else 0, u32, taint=True)
            if j is not None:
                stp.prov[x0.vid] = ("kbits", (), (1 << j, 1 << j))
            x1 = ctx.mk_int(stp, 0, Q - 1, u32, taint=True)
            hpoly = Ag((Sq(Ag((ctx.mk_int(stp, 0, Q - 1, u32, taint=True),)), ctx.const_int(stp, 2, ctx.usize_ty()), {0: Ag((x0,)), 1: Ag((x1,))}),))
            S.run(pkto, [S.cell(stp, "self", Ag((hpoly,)))], stp)
            ctx.observers.remove(obsp)
            npart += 1
            first = [p_ for p_ in pushes if p_[0] is not None and 8 <= p_[0] < 22]
            if len(pushes) != 28 or len(first) != 14 or [p_[0] for p_ in first] != list(range(8, 22)):
                okb, whyb = False, f"expected 14 bits per coefficient appended after the header byte; saw {len(pushes)} pushes at positions {[p_[0] for p_ in pushes][:16]}"
                break
            ones = [p_[0] - 8 for p_ in first if p_[1] == (1, 1)]
            zeros = [p_[0] - 8 for p_ in first if p_[1] == (0, 0)]
            if j is None:
                if len(zeros) != 14:
                    okb, whyb = False, "an all-zero coefficient does not produce 14 zero bits"
            elif ones != [13 - j]:
                okb, whyb = False, f"bit {j} of a coefficient is written at offset(s) {ones} of its 14-bit field, expected {13 - j} (most significant bit first)"
                break
        R.check(okb, "C16-bitorder", f"{site} PublicKey::to_bytes", f"each coefficient is written as 14 bits, most significant first ({npart} known-bits partitions)", whyb, key=f"pkbits|{N}")
    # hash threshold, tables
    pq = pqclean(512)
    R.check(pq["hash_reject"] == HASH_REJECT, "C16-hash", "PQClean hash_to_point", f"reference rejects 16-bit samples >= {pq['hash_reject']}", key="hashpq")
    S2 = Session()
    c14.core(R, S2, "C16-hash")
    base = S.find("samplerz::base_sampler")
    tabs = [c09.array_const(prog, c, 16) for t, c in c09.consts_in(prog, base, lambda t: t.tag in ("Array", "Ref") and "u128; 18" in t.s)]
    tabs = [t for t in tabs if t and len(t) == 18]
    R.check(tabs and all(t == pq["rcdt"] for t in tabs), "C16-rcdt", "RCDT", "the sampler table equals PQClean's dist[] recombined", key="rcdt")
    aexp = S.find("samplerz::approx_exp")
    ctab = [c09.array_const(prog, c, 8) for t, c in c09.consts_in(prog, aexp, lambda t: (t.tag in ("Array", "Ref")) and "u64; 13" in t.s)]
    ctab = [t for t in ctab if t and len(t) == 13]
    R.check(ctab and all(t == pq["facct_c"] for t in ctab), "C16-facct", "approx_exp constants", "equal PQClean's fpr_expm_p63 constants", key="facct")
    R.analysed["unsupported"] = S.unsupported[:10]
    R.floor("variants", 2, 2)
