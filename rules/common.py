"""shared helpers for the rule scripts"""
import struct

from fv import facts
from fv.absint import Ctx, St, I, Fl, Ag, En, Sq, Pt, Top, Md, BOT, UNIT, INF, iter_ints
from fv.engine import Engine
from fv.facts import CheckerError
from fv.oracle import Q

FELT = "falcon_rust::falcon_field::Felt"
FELT_TY = "falcon_field::Felt"
POLY_FELT = "falcon_rust::polynomial::Polynomial<falcon_rust::falcon_field::Felt>"
CF = "falcon_rust::cyclotomic_fourier::CyclotomicFourier"


class Session:
    def __init__(self, profile="dev", **kw):
        self.prog = facts.program(profile)
        self.ctx = Ctx(self.prog, **kw)
        self.E = Engine(self.ctx)
        self.unsupported = []
        self.ctx.observers.append(self._obs)

    def _obs(self, ev, **kw):
        if ev == "unsupported":
            self.unsupported.append((kw.get("fn"), kw.get("where"), kw.get("what")))

    def ty(self, s):
        return self.ctx.ty_by_str(s)

    def find(self, name):
        return self.prog.find(name)

    # ---- argument builders
    def int_(self, st, ty, lo, hi=None, taint=False):
        return self.ctx.mk_int(st, lo, lo if hi is None else hi, self.ty(ty), taint=taint)

    def felt(self, st, lo=0, hi=Q - 1, taint=True):
        return Ag((self.ctx.mk_int(st, lo, hi, self.ty("u32"), taint=taint),))

    def seq(self, st, elem, lo, hi=None):
        return Sq(elem, self.ctx.mk_int(st, lo, lo if hi is None else hi, self.ctx.usize_ty()))

    def cell(self, st, tag, val, mut=False):
        key = ("h", tag)
        st.store[key] = val
        return Pt(key, (), mut)

    def bytes_slice(self, st, tag, lo, hi=None, head=None):
        u8 = self.ty("u8")
        s = Sq(self.ctx.top_int(st, u8, taint=True), self.ctx.mk_int(st, lo, lo if hi is None else hi, self.ctx.usize_ty()), head)
        return self.cell(st, tag, s)

    def run(self, inst, args, st):
        from fv.absint import Unsupported
        try:
            return self.E.run(inst, args, st)
        except Unsupported as e:
            # a root the interpreter cannot follow is reported by the rule as "no return", never as a pass
            self.unsupported.append((inst.name, "root", str(e)))
            self.failed_roots = getattr(self, "failed_roots", []) + [(inst.name, str(e))]
            return []

    def obligations_since(self, n0):
        return [o for o in self.ctx.obl[n0:] if not o.quiet]


def record_obligations(R, rule, obls, assumed_reason=None, site_prefix=""):
    """fold E2 obligations into the Result: one entry per distinct key, worst status wins"""
    by = {}
    for o in obls:
        k = o.key()
        cur = by.get(k)
        if cur is None or (cur.ok and not o.ok):
            by[k] = o
    n_bad = 0
    for k, o in sorted(by.items()):
        site = f"{site_prefix}{o.fn} @ {o.span}"
        if o.ok:
            R.ok(rule, site, f"{o.kind}: {o.role} — {o.detail}", key=f"{rule}|{k}", nontrivial=(o.kind != "ptrcheck"))
        else:
            reason = o.assumed or (assumed_reason(o) if assumed_reason else None)
            if reason:
                R.assumed(rule, site, f"{o.kind}: {o.role} — {o.detail} — ASSUMED: {reason}", key=f"{rule}|{k}")
            else:
                n_bad += 1
                R.violation(rule, site, f"{o.kind} not discharged: {o.role} — {o.detail} (call path: {' > '.join(o.ctxpath)})",
                            key=f"{rule}|{k}", data={"fn": o.fn, "kind": o.kind, "role": o.role, "span": o.span, "detail": o.detail})
    return n_bad


def u32s(b):
    return list(struct.unpack("<%dI" % (len(b) // 4), b))


def f64s(b):
    return list(struct.unpack("<%dd" % (len(b) // 8), b))
