"""C04 — every generated key pair is a valid NTRU trapdoor with in-range leaves (decided: the gates and the wiring).

Decided for every seed (the code is interpreted with the heavy numerical callees replaced by symbolic models):
 1 gates       in ntru_gen the NTRU solver (and therefore `return`) is reachable exactly when EVERY NTT
               coefficient of f is non-zero (all zero/non-zero patterns of a length-2 transform are enumerated)
               and gamma <= 1.17^2 q (threshold constant and direction); the polynomials tested are the ones
               solved for and returned, (f, g, F, G) in this order
 2 gen_poly    4096 draws of sampler_z(0, sigma*, ..) with sigma* = 1.17 sqrt(q / 8192), summed in chunks of
               4096/n, n coefficients
 3 gs-norm     gram_schmidt_norm_squared computes max(|f|^2+|g|^2, |q f*/(ff*+gg*)|^2 + |q g*/(ff*+gg*)|^2)
               (identity testing of the extracted expression)
 4 public key  from_secret_key returns ifft(ntt(g) / ntt(f)) with g = b0[0], f = -b0[1] (mod q)
 5 tree        from_b0 = normalize_tree(ffldl(gram(fft(b0))), sigma_N); SecretKey is built nowhere else
               (rule instances shared with C10)
 6 narrowing   gen_b0 only returns polynomials that fit the encoder's widths (shared with C05) — so the i32 -> i16
               narrowing in ntru_gen cannot have wrapped silently for a key that is handed out: a wrapped F, G would
               still be returned (the guard cannot see the lost bits) — NOT decided, see DESIGN.md
NOT decided: that ntru_solve returns F, G with f G - g F = q (algebra over Z[x]/(x^n+1), bigint / floating point
arithmetic at run-time magnitudes), h f = g, and the numerical range of the leaves."""
import math

from fv.absint import St, Pt, Ag, I, Sq, En, Md, Fl, Top, Diverge
from fv.models import ret1
from fv.oracle import SPEC, Q
from .common import Session
from . import c03, c10, symalg, signalg
from .symalg import cplx, poly, coeff_tags, cev, ev, close, Env, NotSymbolic

LEVEL = "other"
TECHNIQUE = "abstract interpretation of ntru_gen with partitioned symbolic callee models (gate reachability), identity testing of the Gram-Schmidt norm, label flow in from_secret_key / from_b0, constants vs re-derived values"
EXPLANATION = ("The retry gates of key generation are decided by enumerating the abstract outcomes of the tests (zero/non-zero pattern of the NTT of f; gamma below/above the bound) and asking "
               "whether the NTRU solver is reachable; formulas are compared by identity testing on expressions extracted from the MIR; roles of f, g, F, G are followed by labels. "
               "The NTRU equation itself and the leaf range are NOT decided.")

NN = 2
FELT_FFT = r"<falcon_rust::polynomial::Polynomial<falcon_rust::falcon_field::Felt> as falcon_rust::fast_fft::FastFft>"
CPLX_FFT = r"<falcon_rust::polynomial::Polynomial<num::Complex<f64>> as falcon_rust::fast_fft::FastFft>"


def ipoly(S, st, lab, ty, lo, hi, n=NN):
    ctx = S.ctx
    usz = ctx.usize_ty()
    return Ag((Sq(ctx.mk_int(st, lo, hi, ty, taint=frozenset({lab})), ctx.const_int(st, n, usz), {i: ctx.mk_int(st, lo, hi, ty, taint=frozenset({f"{lab}[{i}]"})) for i in range(n)}),))


def labels(st, p):
    """labels of the distinguished coefficients of an integer polynomial value"""
    c = p.f[0] if type(p) is Ag and len(p.f) == 1 else p
    if type(c) is not Sq or not c.head:
        return None
    out = []
    for i in sorted(c.head):
        x = c.head[i]
        while type(x) is Ag and len(x.f) == 1:
            x = x.f[0]
        out.append(st.taint.get(x.vid) if type(x) is I else None)
    return out


def head_vids(p):
    """identities (vids) of the distinguished coefficients of an integer polynomial value"""
    c = p.f[0] if type(p) is Ag and len(p.f) == 1 else p
    if type(c) is not Sq or not c.head:
        return None
    out = []
    for i in sorted(c.head):
        x = c.head[i]
        while type(x) is Ag and len(x.f) == 1:
            x = x.f[0]
        out.append(x.vid if type(x) is I else None)
    return out


def want_labels(lab, n=NN):
    return [frozenset({f"{lab}[{i}]"}) for i in range(n)]


def clause_gates(R, long_probes=True):
    S = Session()
    ctx = S.ctx
    ctx.hooks["exact_collect_max"] = 8
    ctx.hooks["exact_anyall"] = True
    ctx.hooks["may_panic"] = lambda inst: False
    usz, u32, i16, i32 = ctx.usize_ty(), S.ty("u32"), S.ty("i16"), S.ty("i32")
    calls, ident = [], []
    cfg = {"ntt": ("nz", "nz"), "gamma": 1000.0, "gen": 0}

    def m_gen_poly(E, st, fr, bi, callee, args, dest_ty):
        cfg["gen"] += 1
        if cfg["gen"] > cfg.get("gen_max", 6):
            raise Diverge()            # eight trips round the retry loop: enough for loop-carried state (a retry counter) to be widened and show its effect on the gates
        k = "f" if cfg["gen"] % 2 == 1 else "g"
        if not E.ctx.quiet:
            calls.append(("gen_poly", k, st.itv[args[0].vid]))
        pl = ipoly(S, st, k, i16, -32768, 32767)
        cfg.setdefault("cur", {})[k] = head_vids(pl)
        if k == "g":
            cfg.setdefault("trips", []).append([cfg["cur"].get("f"), cfg["cur"].get("g")])
        return ret1(pl, st)

    def m_ntt(E, st, fr, bi, callee, args, dest_ty):
        v = E.load(st, args[0].key, args[0].proj)
        if not E.ctx.quiet:
            calls.append(("ntt", labels(st, v)))

        def el(i):
            return Ag((ctx.mk_int(st, 0, 0, u32) if cfg["ntt"][i] == "z" else ctx.mk_int(st, 1, Q - 1, u32),))
        return ret1(Ag((Sq(Ag((ctx.mk_int(st, 0, Q - 1, u32),)), ctx.const_int(st, NN, usz), {i: el(i) for i in range(NN)}),)), st)

    def m_gs(E, st, fr, bi, callee, args, dest_ty):
        if not E.ctx.quiet:
            calls.append(("gs", [labels(st, E.load(st, a.key, a.proj)) for a in args]))
            ident.append(("gs", sorted(map(str, [head_vids(E.load(st, a.key, a.proj)) for a in args])) == sorted(map(str, [cfg["cur"].get("f"), cfg["cur"].get("g")]))))
        return ret1(Fl(cfg["gamma"], cfg["gamma"], False, "gamma"), st)

    def m_solve(E, st, fr, bi, callee, args, dest_ty):
        if not E.ctx.quiet:
            calls.append(("solve", [labels(st, a) for a in args]))
            ident.append(("solve", [head_vids(a) for a in args] == [cfg["cur"].get("f"), cfg["cur"].get("g")]))
        big = ipoly(S, st, "F", i32, -2 ** 31, 2 ** 31 - 1), ipoly(S, st, "G", i32, -2 ** 31, 2 ** 31 - 1)
        for nm, pl in zip(("F", "G"), big):
            for i in range(NN):
                cfg.setdefault("solver_vids", {})[pl.f[0].head[i].vid] = f"{nm}[{i}]"        # every pass of the analysis adds its own
        return [(En({1: (Ag(big),)}), st.copy()), (En({0: ()}), st)]
    symalg.install(S, [(r"^falcon_rust::math::gen_poly$", m_gen_poly), (FELT_FFT + r"::fft$", m_ntt), (r"^falcon_rust::math::gram_schmidt_norm_squared$", m_gs),
                       (r"^falcon_rust::math::ntru_solve_entrypoint$", m_solve)])
    ng = S.find("math::ntru_gen")
    fc = []

    def obs(evn, **kw):
        if ctx.quiet:
            return
        if evn == "branch" and (kw["frame"].inst is ng or kw["frame"].inst.name.startswith("falcon_rust::math::")):
            p = kw["st"].prov.get(kw["discr"].vid)
            if p and p[0] == "fcmp":
                fc.append(p[2])
    ctx.observers.append(obs)

    def go(ntt, gamma):
        cfg["ntt"], cfg["gamma"], cfg["gen"] = ntt, gamma, 0
        del calls[:]
        del ident[:]
        cfg["trips"] = []
        st = St()
        rng = S.cell(st, "rng", Md("rng", {"origin": "param", "site": None}), mut=True)
        outs = S.run(ng, [ctx.const_int(st, NN, usz), rng], st)
        return outs, list(calls)
    thr = 1.17 ** 2 * Q
    # 1a invertibility gate
    for ntt in (("nz", "nz"), ("z", "nz"), ("nz", "z"), ("z", "z")):
        outs, cl = go(ntt, 1000.0)
        reach = any(c[0] == "solve" for c in cl)
        want = ntt == ("nz", "nz")
        pat = ", ".join("zero" if x == "z" else "non-zero" for x in ntt)
        R.check(reach == want and (len(outs) > 0) == want, "C04-gate", f"ntru_gen: NTT(f) = ({pat}), gamma small",
                "the solver is reached and a key can be returned" if want else "retry: the solver is never reached, nothing is returned",
                f"solver reachable: {reach}, return reachable: {len(outs) > 0} — a non-invertible f can be {'accepted' if reach else 'rejected'}" if not want else "an acceptable (f, g) is never solved for",
                key=f"gate|ntt|{''.join(ntt)}")
        if want and outs:
            # 1c plumbing on the accepting run
            nt = [c for c in cl if c[0] == "ntt"]
            gs = [c for c in cl if c[0] == "gs"]
            sv = [c for c in cl if c[0] == "solve"]
            R.check(nt and nt[0][1] == want_labels("f"), "C04-flow", "ntru_gen -> NTT", "the invertibility test looks at the NTT of f (first sampled polynomial), coefficient order unchanged", f"NTT input labels {nt[0][1] if nt else None}", key="flow|ntt")
            R.check(gs and sorted(map(str, gs[0][1])) == sorted(map(str, [want_labels("f"), want_labels("g")])), "C04-flow", "ntru_gen -> gram_schmidt_norm_squared", "the norm test gets f and g", f"arguments {gs[0][1] if gs else None}", key="flow|gs")
            R.check(sv and sv[0][1] == [want_labels("f"), want_labels("g")], "C04-flow", "ntru_gen -> ntru_solve_entrypoint", "the solver gets (f, g), the tested polynomials", f"arguments {sv[0][1] if sv else None}", key="flow|solve")
            # the very same values, not only values derived from them: the polynomials that pass the two tests are the ones
            # solved for and returned (a coefficient "nudged" between the norm test and the solver keeps its label)
            R.check(bool(ident) and all(ok_ for _, ok_ in ident), "C04-flow", "ntru_gen: identity of (f, g)",
                    "the coefficients handed to the norm test and to the solver are the sampled values themselves (unmodified in between)",
                    f"a coefficient of f or g is modified between sampling and {[w for w, ok_ in ident if not ok_][:1]}: the tests were made on other values than the ones used", key="flow|ident")
            okr = True
            for r, s2 in outs:
                okr = okr and type(r) is Ag and len(r.f) == 4 and [labels(s2, x) for x in r.f] == [want_labels("f"), want_labels("g"), want_labels("F"), want_labels("G")]
            R.check(okr, "C04-flow", "ntru_gen result", "returns (f, g, F, G): the tested f, g and the solver's F, G, coefficient order unchanged",
                    f"returned labels {[[labels(s2, x) for x in r.f] for r, s2 in outs][:1]}", key="flow|ret")
            # narrowing of F, G: each returned coefficient is the solver's coefficient itself (conversion proved lossless, e.g. a
            # checked conversion with retry) or that coefficient after ONE cast whose only loss is wrapping to the 16-bit element
            # type. A detour through a narrower type, a clamp or any other arithmetic changes values the later range guard cannot
            # see. (The single wrapping cast of today's code is tolerated: no seed is known for which it loses anything.)
            okn, whyn = okr, ""
            for r, s2 in outs:
                if not okn:
                    break
                for nm, pl in (("F", r.f[2]), ("G", r.f[3])):
                    for i in range(NN):
                        x = pl.f[0].head[i]
                        lab = f"{nm}[{i}]"
                        sv_ = cfg.get("solver_vids", {})
                        itv = s2.itv[x.vid]
                        p = s2.prov.get(x.vid)
                        same = sv_.get(x.vid) == lab                                   # the solver's own value (its range refined at most)
                        srcv = p[1][0] if p and p[1] else None
                        one_cast = bool(p) and p[0] in ("truncast", "wrapcast") and sv_.get(srcv) == lab and itv == (-32768, 32767)
                        import os
                        if os.environ.get("DBG_NARROW"):
                            print("narrow", nm, i, x.vid, itv, p, "src", srcv, sv_.get(srcv), "same", same)
                        if not (same or one_cast):
                            okn, whyn = False, f"{nm}[{i}] reaches the result as a value in {itv} computed by {p[0] if p else 'other arithmetic'}: not the solver's coefficient after one 16-bit cast"
            R.check(okn, "C04-narrow", "ntru_gen result: F, G", "each returned coefficient of F, G is the solver's coefficient after at most one cast to the 16-bit element type (no detour through a narrower type, no clamping)",
                    whyn, key="narrow")
    # 1b Gram-Schmidt gate
    for gamma, want, nm in ((thr * (1 - 1e-9), True, "just below"), (thr * (1 + 1e-9), False, "just above"), (0.0, True, "zero"), (math.inf, False, "infinite")):
        # the rejecting probes follow the retry loop for 1100 trips (the run is exact and cheap: every callee is a stand-in), so
        # that a gate which gives way after N rejections ("termination safeguard") is seen for every N up to 1100
        cfg["gen_max"] = 6 if (want or not long_probes) else 2200
        ctx.path_budget, saved_pb = 10 ** 8, ctx.path_budget
        ctx.path_mode_fns = (lambda inst: inst is ng or (inst.local and inst.name.startswith("falcon_rust::math::ntru_gen"))) if not want else None
        outs, cl = go(("nz", "nz"), gamma)
        ctx.path_mode_fns, ctx.path_budget = None, saved_pb
        cfg["gen_max"] = 6
        reach = any(c[0] == "solve" for c in cl)
        R.check(reach == want, "C04-gate", f"ntru_gen: gamma {nm} 1.17^2 q = {thr:.4f}", "accepted" if want else f"rejected (retry), in each of {sum(1 for c in cl if c[0] == 'gs')} consecutive trips round the loop",
                f"gamma = {gamma} is {'accepted' if reach else 'rejected'}: the Gram-Schmidt bound applied is not 1.17^2 q", key=f"gate|gs|{nm}")
    # the constant side of the comparison, whichever side it is written on
    consts = []
    for f in fc:
        for tag_, rng in ((f[1], f[3]), (f[2], f[4])):
            if tag_ != "gamma" and rng[0] == rng[1]:
                consts.append(rng[0])
    R.check(consts and all(abs(c - thr) <= 1e-9 * thr for c in consts), "C04-const", "ntru_gen threshold", f"gamma is compared with {consts[0] if consts else '?'} = 1.3689 q",
            f"comparisons: {[(f[0], f[3], f[4]) for f in fc[:3]]}", key="const|thr")
    R.analysed.setdefault("unsupported", []).extend(S.unsupported[:5])


def clause_basis(R):
    """gen_b0 hands out [g, -f, G, -F] of ONE call of ntru_gen: ntru_gen is replaced by a stand-in whose k-th call returns four
    polynomials with coefficients labelled (call site, role, index); in every returned basis the four polynomials carry one
    and the same call site and the roles g, f, G, F in this order, position by position. (A retry that keeps f, g of one attempt and takes F, G
    from the next returns a basis with f G - g F != q.)"""
    import re
    from . import skeleton
    for N in (512, 1024):
        sk = skeleton.session()
        ctx = sk.ctx
        i16, usz = sk.ty("i16"), ctx.usize_ty()
        K = 2
        ncall = [0]

        def m_ntru_gen(E, st, fr, bi, callee, args, dest_ty):
            ncall[0] += 1
            if ncall[0] > 200:
                raise Diverge()
            k = (fr.inst.name.split("::")[-1], bi)          # the call site: stable across the passes of the fixpoint iteration

            def pol(role):
                heads = {i: ctx.top_int(st, i16, taint=frozenset({(k, role, i)})) for i in range(K)}
                return Ag((Sq(ctx.top_int(st, i16, taint=frozenset({(k, role, "*")})), ctx.const_int(st, K, usz), heads),))
            return [(Ag(tuple(pol(r) for r in ("f", "g", "F", "G"))), st)]
        ctx.models.table[:0] = [(re.compile(r"^falcon_rust::math::ntru_gen$"), m_ntru_gen)]
        ctx.models.cache.clear()
        ctx.hooks["exact_collect_max"] = 8
        ctx.hooks["exact_anyall"] = True
        ctx.hooks["unroll"] = lambda fr, h: 8 if fr.inst.local else 0
        ctx.hooks["split_bool_ret"] = lambda inst: inst.local
        gb = sk.find(f"falcon::SecretKey::<{N}>::gen_b0")
        st = St()
        seed = Sq(ctx.top_int(st, sk.ty("u8"), taint=True), ctx.const_int(st, 32, usz))
        outs = sk.run(gb, [seed], st)
        site = f"gen_b0::<{N}>"
        ok, why = bool(outs), "no return found in the abstract run"
        for r, rst in outs:
            if type(r) is not Sq or not r.head or len(r.head) != 4:
                ok, why = False, "result is not an array of four polynomials"
                break
            roles = []
            for j in range(4):
                sq = r.head[j].f[0] if type(r.head[j]) is Ag and type(r.head[j].f[0]) is Sq else None
                labs = set()
                for i in range(K):
                    h = sq.head.get(i) if sq is not None and sq.head else None
                    t = rst.taint.get(h.vid) if type(h) is I else None
                    labs |= {(l[0], l[1]) for l in (t or ()) if isinstance(l, tuple) and len(l) == 3 and l[2] == i} if t else {("?", "?")}
                roles.append(labs)
            want = ["g", "f", "G", "F"]
            rl = [{r_ for _, r_ in x} for x in roles]
            if not all(len(x) == 1 for x in rl) or [next(iter(x)) for x in rl] != want:
                ok, why = False, f"returned polynomials have the roles {[sorted(x) for x in rl]}, expected [g, f, G, F] position by position"
                break
            sites_ = [frozenset(c for c, _ in x) for x in roles]
            if len(set(sites_)) != 1:
                # several call sites are fine (a first attempt before the loop, retries inside it) as long as all four
                # polynomials can come from the same ones: f from {A} with F from {A, B} means F, G were replaced alone
                ok, why = False, f"the returned basis mixes the results of different ntru_gen calls: call sites per polynomial {[sorted(map(str, x)) for x in sites_]}"
                break
        R.check(ok, "C04-basis", site, "the returned basis is [g, -f, G, -F] of one and the same ntru_gen call, coefficient by coefficient", why, key=f"basis|{N}")
    R.floor("gen_b0 variants analysed", 2, 2)


def clause_gen_poly(R):
    """gen_poly(n) by identity test: sampler_z is replaced by a rule-local stand-in that returns the k-th value of a
    pseudo-random sequence d_0, d_1, .. (and records its arguments); gen_poly is then followed on its single feasible
    path.  Decided: every call is sampler_z(0, sigma*, sigmin <= sigma*, the generator parameter); there are exactly
    4096 calls; the result has exactly n coefficients and coefficient i equals d_{ik} + .. + d_{ik+k-1}, k = 4096/n.
    Nothing about the spelling of gen_poly (iterator chain, explicit loops, chunks or index arithmetic) enters."""
    import random, re
    sigma_star = 1.17 * math.sqrt(Q / 8192)
    for n in (512, 1024, 64):
        for seed in (1, 2):
            S = Session()
            ctx = S.ctx
            ctx.hooks["may_panic"] = lambda inst: False
            ctx.hooks["exact_collect_max"] = 4200
            ctx.hooks["keep_heads_max"] = 4200
            ctx.hooks["exact_int_sum"] = True
            ctx.path_mode_fns = lambda inst: inst.local
            ctx.path_budget = 10 ** 8
            gp = S.find("math::gen_poly")
            usz = ctx.usize_ty()
            rnd = random.Random(seed * 1000 + n)
            vals, ent = [], []

            def m_sz(E, st, fr, bi, callee, args, dest_ty):
                ent.append(list(args))
                v = rnd.randint(-400, 400)
                vals.append(v)
                return [(ctx.const_int(st, v, dest_ty), st)]
            ctx.models.table[:0] = [(re.compile(r"samplerz::sampler_z$"), m_sz)]
            ctx.models.cache.clear()
            st = St()
            rng = S.cell(st, "rng", Md("rng", {"origin": "param", "site": None}), mut=True)
            outs = S.run(gp, [ctx.const_int(st, n, usz), rng], st)
            site = f"gen_poly(n = {n})"
            if seed == 1:
                oka = bool(ent) and all(type(a[0]) is Fl and a[0].lo == a[0].hi == 0.0 and type(a[1]) is Fl and a[1].lo == a[1].hi and abs(a[1].lo - sigma_star) < 1e-12
                                        and type(a[2]) is Fl and a[2].lo == a[2].hi and 0 < a[2].lo <= a[1].lo and type(a[3]) is Pt and a[3].key == ("h", "rng") for a in ent)
                R.check(oka, "C04-genpoly", site + " sampler", f"draws sampler_z(0, sigma* = {sigma_star:.14f}, ..) from the generator parameter ({len(ent)} calls)",
                        f"sampler arguments {[str(a[:3]) for a in ent[:2]]}", key=f"genpoly|args|{n}")
            k = 4096 // n
            got, ln = None, None
            if len(outs) == 1:
                r, s2 = outs[0]
                try:
                    sq = r.f[0]
                    ln = s2.itv[sq.len.vid]
                    if ln == (n, n) and sq.head and len(sq.head) >= n:
                        got = [s2.const(sq.head[i]) for i in range(n)]
                except Exception:
                    pass
            want = [sum(vals[i * k:(i + 1) * k]) for i in range(n)] if len(vals) == 4096 else None
            R.check(len(vals) == 4096 and got is not None and got == want, "C04-genpoly", site + f" chunk (sequence {seed})",
                    f"4096 draws; coefficient i is the sum of draws {k}i .. {k}i+{k - 1} ({n} coefficients, compared on a pseudo-random draw sequence)",
                    f"{len(vals)} draws; result length {ln}; " + ("result is not a list of constants" if got is None else
                                                                 f"first deviation at coefficient {next((i for i in range(n) if got[i] != want[i]), None) if want else None}"),
                    key=f"genpoly|chunk|{n}|{seed}")
            if seed == 1:
                R.check(ln == (n, n), "C04-genpoly", site + " length", f"returns exactly {n} coefficients", f"length {ln}, outcomes {len(outs)}", key=f"genpoly|len|{n}")
            R.analysed.setdefault("unsupported", []).extend(S.unsupported[:5])


def clause_gs_norm(R, rule="C04-gsnorm"):
    S = c10.session()
    ctx = S.ctx
    i16 = S.ty("i16")
    usz = ctx.usize_ty()
    errs = []

    def m_fft(E, st, fr, bi, callee, args, dest_ty):
        v = E.load(st, args[0].key, args[0].proj)
        try:
            a, base = signalg.lin_input(st, v)
        except NotSymbolic as e:
            errs.append(str(e))
            return ret1(poly(S, st, "unknown", NN), st)
        head = {e: Ag((Fl(-math.inf, math.inf, False, ("fMul", a, f"^{base}[{e}].re")), Fl(-math.inf, math.inf, False, ("fMul", a, f"^{base}[{e}].im")))) for e in range(NN)}
        return ret1(Ag((Sq(cplx("^" + base), ctx.const_int(st, NN, usz), head),)), st)
    symalg.install(S, [(CPLX_FFT + r"::fft$", m_fft)])
    gs = S.find("math::gram_schmidt_norm_squared")
    st = St()
    f = S.cell(st, "f", ipoly(S, st, "f", i16, -32768, 32767))
    g = S.cell(st, "g", ipoly(S, st, "g", i16, -32768, 32767))
    outs = S.run(gs, [f, g], st)
    site = "gram_schmidt_norm_squared"
    if errs or len(outs) != 1 or type(outs[0][0]) is not Fl:
        R.violation(rule, site, f"no symbolic result ({errs[:1]}, {len(outs)} outcomes)", key="gsnorm|run")
        return
    r, s2 = outs[0]
    def leaf(env):
        def fn(l):
            if isinstance(l, tuple):
                c = s2.const_vid(l[1])
                if c is not None:
                    return float(c)
                k, root = symalg.int_root(s2, l[1])
                labs = s2.taint.get(root) or frozenset()
                if len(labs) != 1:
                    return None
                return k * env("int:" + next(iter(labs)))
            return env(l)
        return fn

    def want(env):
        # time-domain norm uses the integer coefficients; Fourier-domain part uses the transform symbols (independent symbols:
        # the identity must hold as an expression in both)
        g1 = sum(env(f"int:{p}[{i}]") ** 2 for p in ("f", "g") for i in range(NN))
        tot = 0.0
        for e in range(NN):
            fh, gh = env.c(f"^f[{e}]"), env.c(f"^g[{e}]")
            den = fh * fh.conjugate() + gh * gh.conjugate()
            tot += abs(Q * fh.conjugate() / den) ** 2 + abs(Q * gh.conjugate() / den) ** 2
        return max(g1, tot / NN)
    # two regimes so that both arguments of the max are exercised
    ok = True
    detail = ""
    try:
        for scale, nm in ((1.0, "second term dominates"), (200.0, "first term dominates")):
            for t in range(4):
                env = Env(300 + t)
                for i in range(NN):
                    for p in ("f", "g"):
                        env.v[f"int:{p}[{i}]"] = scale * env(f"int:{p}[{i}]")
                        env.setc(f"^{p}[{i}]", scale * env.c(f"^{p}[{i}]"))
                got, w = ev(r.tag, leaf(env)), want(env)
                if not close(got, w):
                    ok = False
                    detail = f"regime `{nm}`: extracted expression gives {got}, specification {w}"
    except NotSymbolic as e:
        ok = False
        detail = f"not symbolic: {e}"
    R.check(ok, rule, site, "equals max(|f|^2 + |g|^2, (1/n) sum |q conj(f^)/(f^ f^* + g^ g^*)|^2 + |q conj(g^)/(..)|^2) at random points in both regimes of the max", detail, key="gsnorm|formula")
    R.analysed.setdefault("unsupported", []).extend(S.unsupported[:5])


def clause_public_key(R):
    for N in (512, 1024):
        S = Session()
        ctx = S.ctx
        ctx.hooks["exact_collect_max"] = 8
        ctx.hooks["may_panic"] = lambda inst: False
        ctx.path_mode_fns = lambda inst: inst.local
        usz, u32, i16 = ctx.usize_ty(), S.ty("u32"), S.ty("i16")
        calls = []

        def fpoly(st, lab):
            return Ag((Sq(Ag((ctx.mk_int(st, 0, Q - 1, u32, taint=frozenset({lab})),)), ctx.const_int(st, NN, usz), {i: Ag((ctx.mk_int(st, 0, Q - 1, u32, taint=frozenset({f"{lab}[{i}]"})),)) for i in range(NN)}),))

        def m_ntt(E, st, fr, bi, callee, args, dest_ty):
            v = E.load(st, args[0].key, args[0].proj)
            k = len(calls)
            # residue of each input coefficient as a linear form in the key's coefficients (mod q)
            forms = []
            c = v.f[0]
            for i in sorted(c.head or {}):
                x = c.head[i].f[0]
                rs = st.res.get(x.vid)
                forms.append((rs if rs is not None else negs.get(x.vid), st.taint.get(x.vid)))
            calls.append(("ntt", k, forms))
            return ret1(fpoly(st, f"ntt{k}"), st)

        def m_div(E, st, fr, bi, callee, args, dest_ty):
            k = len(calls)
            calls.append(("div", k, [labels(st, E.load(st, a.key, a.proj)) for a in args]))
            return ret1(fpoly(st, f"div{k}"), st)

        def m_intt(E, st, fr, bi, callee, args, dest_ty):
            k = len(calls)
            calls.append(("intt", k, labels(st, E.load(st, args[0].key, args[0].proj))))
            return ret1(fpoly(st, f"intt{k}"), st)
        negs = {}

        def obsn(evn, **kw):
            if evn == "ret" and kw["callee"] is not None and kw["callee"].name == "<falcon_rust::falcon_field::Felt as std::ops::Neg>::neg":
                a, v = kw["args"][0], kw["value"]
                try:
                    src = kw["st"].res.get(a.f[0].vid)
                    if src is not None:
                        negs[v.f[0].vid] = p_add({}, src, -1)      # C12 proves: class of -a is the negated class
                except Exception:
                    pass
        ctx.observers.append(obsn)
        symalg.install(S, [(FELT_FFT + r"::fft$", m_ntt), (FELT_FFT + r"::ifft$", m_intt), (r"^falcon_rust::polynomial::Polynomial::<falcon_rust::falcon_field::Felt>::hadamard_div$", m_div)])
        fs = S.find(f"falcon::PublicKey::<{N}>::from_secret_key")
        st = St()
        # symbolic residues for the key's coefficients
        from fv.absint import p_sym, p_add
        ctx.res_syms = {}
        b0h = {}
        for j in range(4):
            hd = {}
            for i in range(NN):
                x = ctx.mk_int(st, -2047, 2047, i16, taint=frozenset({f"b{j}[{i}]"}))
                st.res[x.vid] = p_sym(f"b{j}[{i}]")
                ctx.res_syms[f"b{j}[{i}]"] = x.vid
                hd[i] = x
            b0h[j] = Ag((Sq(ctx.mk_int(st, -2047, 2047, i16, taint=frozenset({f"b{j}"})), ctx.const_int(st, NN, usz), hd),))
        b0 = Sq(b0h[0], ctx.const_int(st, 4, usz), b0h)
        sk = S.cell(st, "sk", Ag((b0, Md("ldltree", {}))))
        outs = S.run(fs, [sk], st)
        site = f"PublicKey::<{N}>::from_secret_key"
        ntts = [c for c in calls if c[0] == "ntt"]
        divs = [c for c in calls if c[0] == "div"]
        intts = [c for c in calls if c[0] == "intt"]
        role = {}
        for c in ntts:
            forms = c[2]
            for nm, j, coef in (("f", 1, -1), ("g", 0, 1)):
                if len(forms) == NN and all(fm[0] == p_scaled(f"b{j}[{i}]", coef) for i, fm in enumerate(forms)):
                    role[nm] = c[1]
        R.check("f" in role and "g" in role and len(ntts) == 2, "C04-pk", site + " transforms", "exactly two forward transforms: of g = b0[0] and of f = -b0[1] (as residues mod q, coefficient order unchanged)",
                f"transform inputs (residue forms): {[c[2] for c in ntts]}", key=f"pk|{N}|ntt")
        okd = len(divs) == 1 and "f" in role and "g" in role and divs[0][2] == [want_labels(f"ntt{role['g']}"), want_labels(f"ntt{role['f']}")]
        R.check(okd, "C04-pk", site + " division", "h^ = ntt(g) / ntt(f) pointwise (numerator g, denominator f)", f"hadamard_div arguments {divs[0][2] if divs else None}", key=f"pk|{N}|div")
        oki = len(intts) == 1 and len(divs) == 1 and intts[0][2] == want_labels(f"div{divs[0][1]}")
        R.check(oki, "C04-pk", site + " inverse transform", "h = ifft(h^)", key=f"pk|{N}|intt")
        okr = bool(outs) and len(intts) == 1
        for r, s2 in outs:
            try:
                okr = okr and labels(s2, r.f[0]) == want_labels(f"intt{intts[0][1]}")
            except Exception:
                okr = False
        R.check(okr, "C04-pk", site + " result", "the key stores exactly that h", key=f"pk|{N}|ret")
        R.analysed.setdefault("unsupported", []).extend(S.unsupported[:5])


def p_scaled(name, coef):
    from fv.absint import p_sym, p_mul, p_const
    return p_mul(p_sym(name), p_const(coef % Q))


def run(R):
    R.trust("rustc CTFE + MIR (nightly)", "E0 fact extractor", "E2 abstract interpreter and model table", "identity testing at random points", "Falcon specification v1.2 (Algorithm 5 NTRUGen, constants)")
    R.assume("f G - g F = q for the solver's output, h f = g mod q and the numerical leaf range are NOT decided")
    clause_gates(R)
    clause_gen_poly(R)
    clause_basis(R)
    clause_gs_norm(R)
    clause_public_key(R)
    S = c10.session()
    c10.clause_from_b0(R, S, rule="C04-tree")
    c03.constructor_census(Session(), R, rule="C04-census")
    R.floor("rule instances", len(R.obl), 30)
