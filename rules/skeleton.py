"""skeleton runs: abstract interpretation of sign / gen_b0 / ntru_gen with the numerically heavy callees
kept opaque, used by the flow rules (C08, C15, C01) to observe which values reach which sinks"""
from fv.absint import St, Pt, Ag, I, Sq, En, Md, Top
from .common import Session
from . import c03

HEAVY = ("ffsampling", "CyclotomicFourier", "FastFft", "hadamard_", "::from_b0", "ntru_solve", "gram_schmidt", "babai", "::field_norm", "karatsuba")


def session():
    S = Session()
    c03.setup(S, "quick", None)
    S.ctx.no_inline = lambda inst: any(h in inst.name for h in HEAVY)
    S.ctx.hooks["may_panic"] = lambda inst: False
    return S


def labelled_bytes(S, st, tag, lo, hi, label):
    ctx = S.ctx
    u8 = S.ty("u8")
    return S.cell(st, tag, Sq(ctx.top_int(st, u8, taint=frozenset({label})), ctx.mk_int(st, lo, hi, ctx.usize_ty())))


def secret_key(S, st, N, label="sk"):
    ctx = S.ctx
    i16 = S.ty("i16")
    usz = ctx.usize_ty()
    poly = lambda: Ag((Sq(ctx.top_int(st, i16, taint=frozenset({label})), ctx.const_int(st, N, usz)),))
    b0 = Sq(poly(), ctx.const_int(st, 4, usz), {i: poly() for i in range(4)})
    return Ag((b0, Top(None)))


def labels_of(st, v):
    """union of labels over every integer inside value v, and whether any integer is unlabelled"""
    from fv.absint import iter_ints
    labs = set()
    unl = False
    n = 0
    for path, i in iter_ints(v):
        if path and path[-1] == "len":
            continue
        n += 1
        if i.vid in st.taint:
            labs |= st.taint[i.vid]
            if not st.taint[i.vid]:
                unl = True
        else:
            unl = True
    return labs, unl, n
