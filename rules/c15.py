"""C15 — key generation is a deterministic function of the seed.

Decided:
 (1) effect analysis: the monomorphic cone of keygen::<N> / generate_from_seed::<N> (dyn RngCore resolved
     through the unsize coercions that occur in the cone) reaches no OS / entropy / time / environment leaf
     and touches no static outside the dependency allow-list; positive control: the cones of sign::<N> and
     SecretKey::generate DO reach OS entropy (so the classifier is alive);
 (2) seed flow: the generator handed to ntru_gen is StdRng::from_seed(seed) with `seed` the unmodified
     parameter; ntru_gen / gen_poly / sampler_z draw from nothing but their generator parameter;
 (3) the crate defines no static / thread-local and contains no unsafe operation (nothing can carry state
     between calls or threads).
Not decided: that flipping a seed bit changes the key pair (property of ChaCha12 and the rejection loop)."""
from fv.absint import St, Pt, Ag, I, Sq, En, Md, Fl, iter_ints
from fv.mir import kind_of
from .common import Session
from . import effects, skeleton

LEVEL = "other"
TECHNIQUE = "whole-program effect analysis on the monomorphic call graph + abstract interpretation of the seed/generator flow"
EXPLANATION = ("Every bodiless leaf of the key-generation cone is classified (allocator, panic, intrinsic, SIMD, formatting, CPU-feature detection are "
               "deterministic; libc / getrandom / time / env / thread / fs are not); the seed-to-generator flow is observed in an abstract run of gen_b0 and "
               "ntru_gen. `Injective-looking` (every seed bit matters) is not decided.")


def unsafe_ops(prog):
    """unsafe operations in local-crate MIR: raw-pointer dereference, calls to unsafe fns, transmute, asm"""
    out = []
    for inst in prog.inst:
        if not inst.local or inst.body is None:
            continue
        locs = inst.body["locals"]
        raw = {i for i, l in enumerate(locs) if prog.ty(l["ty"]).tag == "RawPtr"}

        def place_derefs_raw(p):
            return p["local"] in raw and p["projection"] and kind_of(p["projection"][0])[0] == "Deref"

        def scan(o):
            if isinstance(o, dict):
                if set(o.keys()) >= {"local", "projection"} and isinstance(o.get("projection"), list):
                    if place_derefs_raw(o):
                        return True
                return any(scan(v) for v in o.values())
            if isinstance(o, list):
                return any(scan(v) for v in o)
            return False
        for bi, bb in enumerate(inst.body["blocks"]):
            for st in bb["statements"]:
                k, v = kind_of(st["kind"])
                if k == "Assign":
                    rk, rv = kind_of(v[1])
                    if rk == "Cast" and rv[0] == "Transmute" and not is_expansion(prog, st["span"]):
                        out.append((inst.name, "transmute", prog.span_str(st["span"])))
                    if scan(v) and not is_expansion(prog, st["span"]):
                        out.append((inst.name, "raw pointer dereference", prog.span_str(st["span"])))
            tk, tv = kind_of(bb["terminator"]["kind"])
            if tk == "InlineAsm":
                out.append((inst.name, "inline asm", prog.span_str(bb["terminator"]["span"])))
            if tk == "Call":
                for e in inst.edges:
                    if e["k"] == "call" and e.get("bb") == bi:
                        c = prog.inst[e["to"]]
                        if c.fn_ty is not None and prog.ty(c.fn_ty).s.startswith("unsafe ") and not is_expansion(prog, bb["terminator"]["span"]):
                            out.append((inst.name, f"call to unsafe fn {c.name}", prog.span_str(bb["terminator"]["span"])))
    return out


def is_expansion(prog, span):
    s = prog.span(span)
    return bool(s) and not s[0].startswith("falcon-rust/")


DRAW_RX = None


def draw_sites(S, ids):
    """{(function, callee, source line)} of calls to generator methods in the local functions `ids`, restricted to blocks that
    are reachable from the entry when a SwitchInt on a compile-time constant (a constant operand, or a local assigned a
    constant in the same block) follows only the matching target"""
    import re
    from fv.facts import const_of
    rx = re.compile(r"(RngCore|Rng|SeedableRng|Distribution|rngs::|rand::|rand_core::|rand_chacha::).*::(next_u32|next_u64|fill_bytes|try_fill_bytes|fill|try_fill|gen|gen_range|gen_bool|gen_ratio|sample|sample_iter|random|from_entropy|from_rng)\b")
    out = set()
    prog = S.prog
    for iid in ids:
        inst = prog.inst[iid]
        if not inst.local or inst.body is None:
            continue
        blocks = inst.body["blocks"]
        body = S.ctx.body(inst)
        reach, todo = set(), [0]
        while todo:
            bi = todo.pop()
            if bi in reach or bi is None:
                continue
            reach.add(bi)
            bb = blocks[bi]
            tk, tv = kind_of(bb["terminator"]["kind"])
            succ = None
            if tk == "SwitchInt":
                d = tv["discr"]
                cv = const_of(prog, d)
                if cv is None:
                    dk, dv = kind_of(d)
                    if dk in ("Move", "Copy") and not dv["projection"]:
                        for stt in reversed(bb["statements"]):
                            k, v = kind_of(stt["kind"])
                            if k == "Assign" and v[0]["local"] == dv["local"] and not v[0]["projection"]:
                                rk, rv = kind_of(v[1])
                                if rk == "Use":
                                    cv = const_of(prog, rv[0] if isinstance(rv, list) else rv)
                                break
                if cv is not None and isinstance(cv[1], (int, bool)):
                    val = int(cv[1])
                    tg = [t for (x, t) in tv["targets"]["branches"] if x == val]
                    succ = tg[:1] if tg else [tv["targets"]["otherwise"]]
            if succ is None:
                succ = body.succ[bi]
            todo.extend(succ)
        for e in inst.edges:
            if e["k"] in ("call", "virtual") and e.get("bb") in reach:
                nm = prog.inst[e["to"]].name if e.get("to") is not None else (e.get("name") or "")
                if rx.search(nm):
                    out.add((inst.name, nm, str(prog.span_str(blocks[e["bb"]]["terminator"]["span"]))))
    return out


def abstract_draws(S):
    """abstract run of ntru_gen (n = 512, 1024) with a labelled generator parameter -> (draws, number of draws seen inside
    sampler_z alone, set of draw sites). Compositional: (a) sampler_z, run on its own with an arbitrary centre/width, draws
    from nothing but its generator parameter; (b) in ntru_gen the first call of sampler_z with given float arguments is
    analysed in place and later calls with the same arguments reuse that result range and only record which generator they
    are handed (the generator is opaque, so this is memoisation), and nothing outside sampler_z draws from any other
    generator."""
    import re
    ctx, prog = S.ctx, S.prog
    inst = S.find("math::ntru_gen")
    draws, sites = [], set()

    def origin_of(stt, p):
        try:
            tgt = p
            while type(tgt) is Pt:
                tgt = S.E.load(stt, tgt.key, tgt.proj)
            return tgt.d.get("origin") if type(tgt) is Md and tgt.kind == "rng" else None
        except Exception:
            return None

    def obs2(ev, **kw):
        if ctx.quiet:
            return
        if ev == "entropy":
            r = kw["rng"]
            draws.append((kw["frame"].inst.name, r.d.get("origin") if type(r) is Md else None))
            sites.add((kw["frame"].inst.name, str(kw["frame"].body.span_of(kw["bb"])), kw.get("what")))
    ctx.observers.append(obs2)
    sz = [i for i in prog.inst if i.local and i.name.endswith("samplerz::sampler_z") and i.body is not None]
    n_sz = 0
    if sz:
        st = St()
        rng = S.cell(st, "rng", Md("rng", {"origin": "param", "site": None}), mut=True)
        S.run(sz[0], [Fl(-1e6, 1e6, False), Fl(1.0, 2.0, False), Fl(1.0, 2.0, False), rng], st)
        n_sz = len(draws)
        cache = {}
        busy = [False]

        def m_sampler_z(E, stt, fr, bi, callee, args, dest_ty):
            if busy[0]:
                return None
            key = tuple((a.lo, a.hi) for a in args if type(a) is Fl)
            rngs = [a for a in args if type(a) is Pt]
            if key in cache and rngs:
                if not ctx.quiet:
                    draws.append((callee.name + " (call in " + fr.inst.name + ")", origin_of(stt, rngs[-1])))
                lo, hi = cache[key]
                return [(ctx.mk_int(stt, lo, hi, dest_ty), stt)]
            busy[0] = True
            try:
                outs = E.run(callee, args, stt, fr, bi)
            finally:
                busy[0] = False
            if len(outs) == 1 and type(outs[0][0]) is I:
                cache[key] = outs[0][1].itv[outs[0][0].vid]
            return outs
        ctx.models.table[:0] = [(re.compile(re.escape(sz[0].name) + "$"), m_sampler_z)]
        ctx.models.cache.clear()
    for n in (512, 1024):
        st = St()
        rng = S.cell(st, "rng", Md("rng", {"origin": "param", "site": None}), mut=True)
        S.run(inst, [ctx.const_int(st, n, ctx.usize_ty()), rng], st)
    if sz:
        del ctx.models.table[0]
        ctx.models.cache.clear()
    ctx.observers.remove(obs2)
    return draws, n_sz, sites


def run(R):
    S = skeleton.session()
    ctx, prog = S.ctx, S.prog
    R.trust("rustc MIR + monomorphic call graph (nightly, -Zalways-encode-mir)", "E0 fact extractor", "leaf classification table (rules/effects.py)", "E2 abstract interpreter")
    R.assume("std's precompiled non-generic functions (formatting, allocator, panic machinery, std_detect) are opaque leaves classified by name")
    # (1) effects
    for N in (512, 1024):
        for root in (f"falcon::keygen::<{N}>", f"falcon::SecretKey::<{N}>::generate_from_seed", f"falcon::PublicKey::<{N}>::from_secret_key"):
            inst = S.find(root)
            effects.cone_is_deterministic(R, prog, [inst.id], "C15-effects", root, floor_instances=150)
        # positive control
        for root in (f"falcon::sign::<{N}>", f"falcon::SecretKey::<{N}>::generate"):
            inst = S.find(root)
            seen, leaves = effects.cone(prog, [inst.id])
            classes = {effects.classify(l) for l in leaves}
            ent = [prog.inst[i].name for i in seen if effects.ENTROPY_NAMES.search(prog.inst[i].name)]
            R.check("os" in classes and ent, "C15-control", root, f"positive control: this cone does reach OS entropy ({len(ent)} entropy functions, leaf classes {sorted(classes)})",
                    "positive control failed: the classifier does not see OS entropy in a cone that must contain it", key=f"control|{root}")
    # (2) seed flow: every byte of the seed parameter, in place, reaches StdRng::from_seed
    for N in (512, 1024):
        inst = S.find(f"falcon::keygen::<{N}>")
        events = []

        def obs(ev, **kw):
            if ctx.quiet:
                return
            if ev == "enter":
                nm = kw["callee"].name
                if nm.endswith("SeedableRng>::from_seed") and "StdRng" in nm:
                    events.append(("from_seed", kw["args"], kw["st"]))
                elif nm == "falcon_rust::math::ntru_gen":
                    events.append(("ntru_gen", kw["args"], kw["st"]))
            elif ev == "entropy":
                events.append(("entropy", kw["rng"], kw["frame"].inst.name))
        ctx.observers.append(obs)
        saved = ctx.no_inline
        ctx.no_inline = lambda i: i.name == "falcon_rust::math::ntru_gen" or "from_secret_key" in i.name or saved(i)
        st = St()
        u8 = S.ty("u8")
        heads = {i: ctx.top_int(st, u8, taint=frozenset({("seed", i)})) for i in range(32)}
        seed = Sq(ctx.top_int(st, u8, taint=frozenset({("seed", "any")})), ctx.const_int(st, 32, ctx.usize_ty()), heads)
        outs = S.run(inst, [seed], st)
        ctx.no_inline = saved
        ctx.observers.remove(obs)
        site = f"keygen::<{N}>"
        fs = [e for e in events if e[0] == "from_seed"]
        ok = False
        why = f"{len(fs)} StdRng::from_seed call(s) under keygen"
        if len(fs) == 1:
            a = fs[0][1][0]
            stt = fs[0][2]
            if type(a) is Sq and stt.const(a.len) == 32 and a.head and len(a.head) == 32:
                got = [sorted(map(str, stt.taint.get(a.head[i].vid, {"<none>"}))) for i in range(32)]
                want = [[str(("seed", i))] for i in range(32)]
                # identity, not only dependence: the very abstract value of parameter byte i (any arithmetic on it would have made a new one)
                same = [a.head[i].vid == heads[i].vid and stt.itv[a.head[i].vid] == (0, 255) for i in range(32)]
                ok = got == want and all(same)
                bad = [i for i in range(32) if got[i] != want[i] or not same[i]]
                why = (f"bytes {bad[:8]} of the generator seed are not the corresponding bytes of the parameter, unmodified (e.g. byte {bad[0]} carries {got[bad[0]]}"
                       f"{'' if same[bad[0]] else ', and is a computed value, range ' + str(stt.itv[a.head[bad[0]].vid])})") if bad else ""
            else:
                why = "the generator seed is not a 32-byte array whose bytes can be traced individually to the parameter"
        R.check(ok, "C15-seed", site, "the generator is StdRng::from_seed(seed): each of the 32 seed bytes reaches it unmodified, in place", why, key=f"seed|{N}")
        ng = [e for e in events if e[0] == "ntru_gen"]
        okg = False
        for e in ng:
            p = e[1][1]
            stt = e[2]
            try:
                tgt = S.E.load(stt, p.key, p.proj)
                while type(tgt) is Pt:
                    tgt = S.E.load(stt, tgt.key, tgt.proj)
                okg = type(tgt) is Md and tgt.kind == "rng" and tgt.d.get("origin") == "from_seed"
            except Exception:
                okg = False
        R.check(len(ng) >= 1 and okg, "C15-seed", site + " -> ntru_gen", "ntru_gen receives that seeded generator (and nothing else random)",
                f"ntru_gen calls: {len(ng)}; generator argument is not the from_seed generator", key=f"ntru|{N}")
        other = [e for e in events if e[0] == "entropy"]
        R.check(not other, "C15-seed", site + " (other draws)", "nothing else draws randomness between keygen and ntru_gen", f"extra draws: {other[:3]}", key=f"extra|{N}")
    # ntru_gen / gen_poly / sampler_z: all draws come from the parameter (see abstract_draws)
    draws, n_sz, sites_dev = abstract_draws(S)
    R.floor("abstract draws inside sampler_z", n_sz, 1)
    fns = sorted({d[0] for d in draws})
    bad = [d for d in draws if d[1] != "param"]
    R.check(draws and not bad, "C15-draws", "ntru_gen cone", f"{len(draws)} abstract draws in {fns}, all from the generator parameter",
            f"draws from another generator: {bad[:3]}", key="draws")
    R.floor("functions that draw randomness under ntru_gen", len(fns), 1)
    # the same seed must give the same key in every build profile: the draw call sites of the key-generation cone that are
    # reachable once branches on compile-time constants are pruned (`cfg!(debug_assertions)`, the guard of `debug_assert!`)
    # are the same in the dev MIR (debug assertions on) and in the release MIR (off). A draw inside `debug_assert!(..)`
    # consumes the seeded stream in one profile only.
    try:
        sites = {}
        for prof, S_ in (("dev", S), ("release", Session("release"))):
            roots = [S_.prog.find(f"falcon::keygen::<{N}>").id for N in (512, 1024)]
            seen, _ = effects.cone(S_.prog, roots)
            sites[prof] = draw_sites(S_, seen)
        only_dev, only_rel = sorted(sites["dev"] - sites["release"]), sorted(sites["release"] - sites["dev"])
        R.check(bool(sites["dev"]) and not only_dev and not only_rel, "C15-profile", "keygen cone, dev vs release MIR",
                f"the same {len(sites['dev'])} draw call site(s) are live with debug assertions on and off",
                f"draw call sites live in one build profile only — debug assertions on: {only_dev[:3]}; off: {only_rel[:3]} — the seeded stream is consumed differently, so one seed gives different keys in debug and release builds",
                key="profile")
        R.floor("live draw call sites in the keygen cone", len(sites["dev"]), 3)
    except Exception as ex:        # fail closed
        R.violation("C15-profile", "keygen cone, dev vs release MIR", f"could not analyse the release-profile MIR: {type(ex).__name__}: {ex}", key="profile")
    # (3) no statics, no unsafe
    R.check(not prog.statics, "C15-nostatic", "crate falcon_rust", "defines no `static` item", f"defines statics: {prog.statics}", key="nostatic")
    tls = [(i.name, e["item"]) for i in prog.inst if i.local for e in i.edges if e["k"] == "tls"]
    loc_static = [(i.name, e["name"]) for i in prog.inst if i.local for e in i.edges if e["k"] == "static" and e["name"].startswith("falcon_rust")]
    R.check(not tls and not loc_static, "C15-nostatic", "crate falcon_rust (bodies)", "no local function touches a thread-local or a crate static",
            f"thread-locals {tls[:3]} statics {loc_static[:3]}", key="notls")
    if prog.lints is None:
        R.violation("C15-nounsafe", "crate falcon_rust", "lint output of the fact extraction is missing", key="nounsafe")
    else:
        uo = [l for l in prog.lints if l["code"] == "unsafe_code"]
        R.check(not uo, "C15-nounsafe", "crate falcon_rust", "rustc's `unsafe_code` lint reports nothing for the crate (no unsafe block, fn, impl or trait)",
                f"unsafe code: {[(l['file'], l['line'], l['message']) for l in uo[:4]]}", key="nounsafe")
    R.floor("local instances scanned", sum(1 for i in prog.inst if i.local and i.body is not None), 300)
    R.analysed["unsupported"] = S.unsupported[:10]
