"""C05 — fixed sizes and representability (decided clauses).

 (1) sizes: abstract runs of the three `to_bytes` encoders (every loop unrolled, lengths constant) return
     vectors of exactly 1281 / 897 / 666 bytes (Falcon-512) and 2305 / 1793 / 1280 bytes (Falcon-1024);
     the header byte written is the one the matching decoder accepts (C06); the field widths
     field_element_width(n, 0..2) equal the specification's and PQClean's max_fg_bits / max_FG_bits;
     the signature header recomputed from the body length is log2 N for the two body lengths in use;
 (2) representability: every secret key that gen_b0::<N> can return has f, g within +-(2^(w-1) - 1) for the
     encoder's own width w and F, G within +-127 — the reserved pattern and out-of-range values cannot be
     generated;
 (3) both ways of obtaining a SecretKey go through from_b0, whose cone is deterministic: equal b0 gives an
     equal signing tree (so a decoded key signs like the original, relative to C01).
Not decided: from_bytes(to_bytes(x)) = x as a function on all values (bit-level inverse-ness of the packing
loops); lossless narrowing of the solver's i32 output (needs magnitude knowledge of F, G)."""
from fv.absint import St, Pt, Ag, I, Sq, En, Md, Top
from fv.oracle import SPEC, pqclean, Q
from .common import Session, record_obligations
from . import c03, effects, skeleton

LEVEL = "other"
TECHNIQUE = "abstract interpretation of the encoders with exact loop unrolling (byte counts, header bytes) and of gen_b0 with predicate refinement (range postcondition); width table vs spec/PQClean"
EXPLANATION = ("Encoders are interpreted with constant lengths, so every push/append is counted exactly; gen_b0 is interpreted with ntru_gen opaque (any four "
               "polynomials) and the guard's `all(..)` predicates refine the element ranges of what is returned. Round-trip equality as a function is not decided.")


def widths(S, N):
    ctx = S.ctx
    inst = S.find(f"falcon::SecretKey::<{N}>::field_element_width")
    out = []
    for idx in range(3):
        st = St()
        r = S.run(inst, [ctx.const_int(st, N, ctx.usize_ty()), ctx.const_int(st, idx, ctx.usize_ty())], st)
        out.append(r[0][1].const(r[0][0]) if r else None)
    return out


def encoder_values(S, st, kind, N):
    ctx = S.ctx
    i16, u8, usz = S.ty("i16"), S.ty("u8"), ctx.usize_ty()
    if kind == "SecretKey":
        poly = lambda: Ag((Sq(ctx.mk_int(st, -127, 127, i16, taint=True), ctx.const_int(st, N, usz)),))
        return Ag((Sq(poly(), ctx.const_int(st, 4, usz), {i: poly() for i in range(4)}), Top(None)))
    if kind == "PublicKey":
        return Ag((Ag((Sq(S.felt(st), ctx.const_int(st, N, usz)),)),))
    slen = SPEC[N]["sig_bytelen"] - 41
    return Ag((Sq(ctx.top_int(st, u8, taint=True), ctx.const_int(st, 40, usz)), Sq(ctx.top_int(st, u8, taint=True), ctx.const_int(st, slen, usz))))


def clause_repr(R, N, w, rule="C05-repr"):
    """every polynomial gen_b0 hands out fits the encoder's field widths `w` and avoids the reserved pattern.
    ntru_gen is opaque: first as four polynomials of unknown length with one summarised coefficient each (sound for every
    length; decides the `iter().all(..)` spelling of the range guard); if that run cannot bound the coefficients, as four
    polynomials of K = 4 individually named arbitrary i16 coefficients, on which a guard written as a loop with an early
    return refines each coefficient on the path that continues (the guard is element-wise, so K coefficients stand for N)."""
    lim = [(1 << (w[1] - 1)) - 1, (1 << (w[0] - 1)) - 1, (1 << (w[2] - 1)) - 1, (1 << (w[2] - 1)) - 1]   # b0 = [g, -f, G, -F]
    names = ["g", "-f", "G", "-F"]
    site = f"gen_b0::<{N}>"
    K = 4

    def attempt(exact):
        sk = skeleton.session()
        gb = sk.find(f"falcon::SecretKey::<{N}>::gen_b0")
        i16, usz = sk.ty("i16"), sk.ctx.usize_ty()
        if exact:
            def m_ntru_gen(E, st, fr, bi, callee, args, dest_ty):
                def pol():
                    heads = {i: sk.ctx.top_int(st, i16, taint=True) for i in range(K)}
                    return Ag((Sq(sk.ctx.top_int(st, i16, taint=True), sk.ctx.const_int(st, K, usz), heads),))
                return [(Ag(tuple(pol() for _ in range(4))), st)]
            import re
            sk.ctx.models.table[:0] = [(re.compile(r"^falcon_rust::math::ntru_gen$"), m_ntru_gen)]
            sk.ctx.models.cache.clear()
            sk.ctx.hooks["exact_collect_max"] = 8
            sk.ctx.hooks["exact_anyall"] = True
            sk.ctx.hooks["unroll"] = lambda fr, h: 8 if fr.inst.local else 0
            sk.ctx.hooks["split_bool_ret"] = lambda inst: inst.local        # `true` and `false` returns of a predicate helper stay apart
        else:
            saved = sk.ctx.no_inline
            sk.ctx.no_inline = lambda i: i.name == "falcon_rust::math::ntru_gen" or saved(i)
        st = St()
        u8 = sk.ty("u8")
        seed = Sq(sk.ctx.top_int(st, u8, taint=True), sk.ctx.const_int(st, 32, sk.ctx.usize_ty()))
        outs = sk.run(gb, [seed], st)
        import os
        if os.environ.get("DBG_C05"):
            print("exact", exact, "models", sk.ctx.models_used, "unmodelled", list(sk.ctx.unmodelled)[:6], "unsupported", sk.unsupported[:4])
            print([str(o[0])[:300] for o in outs])
        if not outs or type(outs[0][0]) is not Sq or not outs[0][0].head or len(outs[0][0].head) != 4:
            return None
        r, rst = outs[0]
        rngs = []
        for i in range(4):
            pol = r.head[i]
            sq = pol.f[0] if type(pol) is Ag and type(pol.f[0]) is Sq else None
            if sq is None:
                rngs.append(None)
                continue
            vals = list(sq.head.values()) if (exact and sq.head and len(sq.head) == rst.const(sq.len)) else [sq.elem]
            if not all(type(v) is I for v in vals):
                rngs.append(None)
                continue
            rngs.append((min(rst.itv[v.vid][0] for v in vals), max(rst.itv[v.vid][1] for v in vals)))
        return rngs
    rngs = attempt(False)
    how = "summarised coefficients, any length"
    good = lambda rr: rr is not None and all(x is not None and -lim[i] <= x[0] and x[1] <= lim[i] for i, x in enumerate(rr))
    if not good(rngs):
        r2 = attempt(True)
        if good(r2):
            rngs, how = r2, f"{K} individually named coefficients per polynomial"
    if rngs is None:
        R.violation(rule, site, "could not determine the four returned polynomials", key=f"repr|{N}")
        return
    for i in range(4):
        rng = rngs[i]
        R.check(rng is not None and -lim[i] <= rng[0] and rng[1] <= lim[i], rule, f"{site} b0[{i}] = {names[i]}",
                f"coefficients within [{-lim[i]},{lim[i]}] (range {rng}; {how}): encodable in the field width and never the reserved pattern",
                f"coefficients may lie in {rng}, outside [{-lim[i]},{lim[i]}]: such a key is not representable in the fixed-width format (or hits the reserved pattern)",
                key=f"repr|{N}|{i}", data={"range": rng, "limit": lim[i]})


def clause_accept(R, N, spec, want_hdr, logn):
    """the reader accepts whatever ends the writer's output: at the exact length and with the canonical header, `Ok` stays
    reachable whether the last byte is zero or not (a compressed s2 that fills its budget, the low bits of the last 14-bit
    or w-bit field) — a decoder that "knows" the encoding ends in padding breaks the round trip"""
    S = skeleton.session()
    ctx = S.ctx
    u8 = S.ty("u8")
    for kind, L in (("Signature", spec["sig_bytelen"]), ("PublicKey", spec["pk_bytes"]), ("SecretKey", spec["sk_bytes"])):
        inst_fb = S.find(f"falcon::{kind}::<{N}>::from_bytes")
        for tag, rng_ in (("non-zero", (1, 255)), ("zero", (0, 0))):
            st = St()
            head = {0: ctx.const_int(st, want_hdr[kind](logn), u8), L - 1: ctx.mk_int(st, rng_[0], rng_[1], u8, taint=True)}
            outs = S.run(inst_fb, [S.bytes_slice(st, "bytes", L, L, head=head)], st)
            okv = any(type(r) is En and 0 in r.vs for r, _ in outs)
            R.check(okv, "C05-accept", f"{kind}::<{N}>::from_bytes, last byte {tag}", "`Ok` is reachable (canonical header, exact length, every other byte arbitrary)",
                    f"only `Err` is reachable when the last byte is {tag}: encodings the writer can produce are refused", key=f"accept|{kind}|{N}|{tag}")


def run(R):
    S = Session()
    ctx, E, prog = S.ctx, S.E, S.prog
    c03.setup(S, R.tier, R)
    ctx.path_mode_fns = lambda inst: "CyclotomicFourier" in inst.name or "to_bytes" in inst.name
    ctx.step_limit = 3000000
    R.trust("rustc MIR (nightly)", "E0 fact extractor", "E2 abstract interpreter and models of bit-vec / Vec", "Falcon specification sizes", "vendored PQClean sources")
    want_hdr = {"SecretKey": lambda l: 0x50 | l, "PublicKey": lambda l: l, "Signature": lambda l: 0x50 | l}
    for N in (512, 1024):
        spec = SPEC[N]
        pq = pqclean(N)
        logn = spec["logn"]
        w = widths(S, N)
        R.check(w == [spec["fg_bits"], spec["fg_bits"], spec["FG_bits"]], "C05-width", f"field_element_width({N}, 0..2)", f"widths {w} equal the specification's",
                f"widths {w}, specification {[spec['fg_bits'], spec['fg_bits'], spec['FG_bits']]}", key=f"width|{N}")
        R.check(w[:2] == [pq["max_fg_bits"][logn]] * 2 and w[2] == pq["max_FG_bits"][logn], "C05-sib", f"PQClean max_fg_bits/max_FG_bits[{logn}]", "reference widths agree", key=f"widthpq|{N}")
        for kind, L, pql in (("SecretKey", spec["sk_bytes"], pq["sk_bytes"]), ("PublicKey", spec["pk_bytes"], pq["pk_bytes"]), ("Signature", spec["sig_bytelen"], pq["sig_bytes"])):
            inst = S.find(f"falcon::{kind}::<{N}>::to_bytes")
            hdr = []

            def obs(ev, **kw):
                if ev == "enter" and not ctx.quiet and kw["frame"].inst is inst and "BitVec::from_bytes" in kw["callee"].name:
                    a = kw["args"][0]
                    stt = kw["st"]
                    try:
                        s = E.load(stt, a.key, a.proj)
                        while type(s) is Pt:
                            s = E.load(stt, s.key, s.proj)
                        if type(s) is Sq and s.head and 0 in s.head:
                            hdr.append(stt.const(s.head[0]))
                    except Exception:
                        pass
            ctx.observers.append(obs)
            st = St()
            n0 = len(ctx.obl)
            outs = S.run(inst, [S.cell(st, "self", encoder_values(S, st, kind, N))], st)
            ctx.observers.remove(obs)
            record_obligations(R, "C05-asserts", S.obligations_since(n0), site_prefix=f"[{kind}<{N}>::to_bytes] ")
            site = f"{kind}::<{N}>::to_bytes"
            ln = None
            hb = None
            if outs and type(outs[0][0]) is Sq:
                r, rst = outs[0]
                ln = rst.itv[r.len.vid]
                if r.head and 0 in r.head:
                    hb = rst.const(r.head[0])
            R.check(ln == (L, L), "C05-size", site, f"returns exactly {L} bytes", f"returned length {ln}, specification {L}", key=f"size|{kind}|{N}", data={"got": ln, "want": L})
            R.check(L == pql, "C05-sib", site, f"PQClean's size is also {pql}", key=f"sizepq|{kind}|{N}")
            h = hdr[0] if hdr else hb
            R.check(h == want_hdr[kind](logn), "C05-header", site, f"writes header byte 0x{want_hdr[kind](logn):02x}, the one the decoder accepts",
                    f"header byte written is {h if h is None else hex(h)}, the decoder accepts only 0x{want_hdr[kind](logn):02x}", key=f"hdr|{kind}|{N}")
        # the signer's and the decoder's length constant is the specified signature size (shared with C02)
        from . import c02
        par = c02.eval_parameters(S, N)
        R.check(par["sig_bytelen"] == spec["sig_bytelen"] == pq["sig_bytes"], "C05-size", f"FalconVariant::parameters() n={N}", f"sig_bytelen = {par['sig_bytelen']}: sign emits and from_bytes expects the specified signature size",
                f"sig_bytelen = {par['sig_bytelen']}, specification {spec['sig_bytelen']}", key=f"siglenparam|{N}")
        clause_accept(R, N, spec, want_hdr, logn)
        # (2) representability postcondition of gen_b0
        clause_repr(R, N, w)
        # (3) from_b0 deterministic
        fb = S.find(f"falcon::SecretKey::<{N}>::from_b0")
        effects.cone_is_deterministic(R, prog, [fb.id], "C05-effects", f"from_b0::<{N}>", floor_instances=100)
    clause_field_codec(R)
    R.analysed.setdefault("unsupported", []).extend(S.unsupported[:10])
    R.floor("encoders analysed", 6, 6)


def clause_field_codec(R, rule="C05-field"):
    """secret-key field codec, bit by bit, in the known-bits domain: serialize_field_element(w, x) writes bit j of the
    balanced value at position w-1-j, deserialize_field_element reads position w-1-j back into bit j and sign-extends.
    2w partitions per width (bit j known 0 / known 1, all other bits unknown) cover every representable value, so
    deserialize(serialize(x)) = x as an integer for all of them. balanced_value is used through its C12 contract
    (any value in its range), Felt::new(x) likewise (class of x)."""
    from fv.absint import Md
    from fv.models import ret1
    from . import symalg
    S = Session()
    ctx = S.ctx
    ctx.hooks["may_panic"] = lambda inst: False
    ctx.hooks["exact_anyall"] = True
    ctx.hooks["exact_collect_max"] = 8
    ctx.hooks["kbits_eager"] = True
    u8, usz, i16, u32 = S.ty("u8"), ctx.usize_ty(), S.ty("i16"), S.ty("u32")
    part = {}

    def m_bal(E, st, fr, bi, callee, args, dest_ty):
        lo, hi, mask, val = part["p"]
        z = ctx.mk_int(st, lo, hi, i16)
        st.prov[z.vid] = ("kbits", (), (mask, val))
        return ret1(z, st)
    symalg.install(S, [(r"^falcon_rust::falcon_field::Felt::balanced_value$", m_bal)])
    nruns = 0
    for N in (512, 1024):
        ser = S.find(f"falcon::SecretKey::<{N}>::serialize_field_element")
        de = S.find(f"falcon::SecretKey::<{N}>::deserialize_field_element")
        ctx.hooks["unroll"] = lambda fr, h, ser=ser, de=de: 10 if fr.inst in (ser, de) else 0
        for w in sorted(set(widths(S, N))):
            bad_s, bad_d = [], []
            for j in range(w):
                for b in (0, 1):
                    lim = (1 << (w - 1)) - 1
                    if j == w - 1:
                        mask = 0xFFFF & ~((1 << (w - 1)) - 1)
                        val = mask if b else 0
                        lo, hi = (-lim, -1) if b else (0, lim)
                    else:
                        mask, val, lo, hi = 1 << j, b << j, -lim, lim
                    part["p"] = (lo, hi, mask, val)
                    pushes = []

                    def obs(ev, **kw):
                        if ev == "enter" and not ctx.quiet and kw["callee"].name.endswith("::push") and "BitVec" in kw["callee"].name:
                            a = kw["args"]
                            try:
                                bv = S.E.load(kw["st"], a[0].key, a[0].proj)
                                pushes.append((kw["st"].const(bv.d["len"]), kw["st"].itv[a[1].vid]))
                            except Exception:
                                pushes.append((None, None))
                    ctx.observers.append(obs)
                    st = St()
                    S.run(ser, [ctx.const_int(st, w, usz), Ag((ctx.mk_int(st, 0, Q - 1, u32),))], st)
                    ctx.observers.remove(obs)
                    nruns += 1
                    if not (len(pushes) == w and [p[0] for p in pushes] == list(range(w)) and pushes[w - 1 - j][1] == (b, b)):
                        bad_s.append(f"bit {j} = {b}: pushes {pushes}")
                    # decoder
                    newargs = []

                    def obs2(ev, **kw):
                        if ev == "enter" and not ctx.quiet and kw["callee"].name == "falcon_rust::falcon_field::Felt::new":
                            x = kw["args"][0]
                            newargs.append((kw["st"].itv[x.vid], kw["st"].prov.get(x.vid)))
                    ctx.observers.append(obs2)
                    st = St()
                    pos = w - 1 - j
                    bmask = (1 << (7 - pos)) | ((1 << (8 - w)) - 1)
                    bval = b << (7 - pos)
                    byte = ctx.mk_int(st, bval, 255, u8)
                    st.prov[byte.vid] = ("kbits", (), (bmask, bval))
                    src = Sq(byte, ctx.const_int(st, 1, usz), {0: byte})
                    bits = S.cell(st, "bits", Md("bitvec", {"len": ctx.const_int(st, w, usz), "src": src}))
                    S.run(de, [bits], st)
                    ctx.observers.remove(obs2)
                    nruns += 1
                    okd = bool(newargs)
                    for itv, p in newargs:
                        if itv[0] == itv[1]:
                            m_, v_ = 0xFFFF, itv[0] & 0xFFFF
                        elif p and p[0] == "kbits":
                            m_, v_ = p[2]
                        else:
                            okd = False
                            break
                        need = mask
                        okd = okd and (m_ & need) == need and (v_ & need) == (val & need)
                    if not okd:
                        bad_d.append(f"position {pos} = {b}: Felt::new argument {newargs[:2]}")
            site = f"SecretKey::<{N}> field codec, width {w}"
            R.check(not bad_s, rule, site + " (writer)", f"bit j of the balanced value is written at position {w}-1-j, for every j and both polarities ({2 * w} known-bits partitions)",
                    f"{len(bad_s)} partition(s) differ, e.g. {bad_s[:1]}", key=f"field|ser|{N}|{w}")
            R.check(not bad_d, rule, site + " (reader)", f"position {w}-1-j is read back into bit j, the sign bit into bits {w - 1}..15 ({2 * w} known-bits partitions): deserialize(serialize(x)) = x for every representable x",
                    f"{len(bad_d)} partition(s) differ, e.g. {bad_d[:1]}", key=f"field|de|{N}|{w}")
    R.floor("field codec partitions run", nruns, 100)
    R.analysed.setdefault("unsupported", []).extend(S.unsupported[:5])
