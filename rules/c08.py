"""C08 — every signature carries a fresh 40-byte salt.

Decided on `sign::<N>` (both variants) by abstract interpretation with value labels:
 (1) every byte of the salt field of the returned Signature is generator output (one draw or several; whole-array
     fill or piecewise), and nothing else wrote into that array afterwards;
 (2) the generator that call draws from is the handle returned by `rand::thread_rng()` inside the same
     call of `sign` (OS-seeded, per call, per thread);
 (3) the salt does not depend on the message or the key;
 (4) the string that is hashed contains that same salt and the message.
Not decided: that a CSPRNG never repeats an output (contract of rand::ThreadRng)."""
from fv.absint import St, Pt, Ag, I, Sq, En, Md
from .common import Session
from . import skeleton

LEVEL = "other"
TECHNIQUE = "abstract interpretation of sign with value labels (origin of the salt array, reaching definition at the return and at the hash)"
EXPLANATION = ("sign::<N> is interpreted abstractly with the heavy numerical callees opaque; every byte produced by a generator carries a label naming the "
               "generator's origin and creation site, message and key bytes carry their own labels; the labels found in the returned salt and in the "
               "absorbed string decide the clauses. The statistical statement (no repetition) rests on ThreadRng's contract.")


def run(R):
    S = skeleton.session()
    ctx = S.ctx
    R.trust("rustc MIR (nightly)", "E0 fact extractor", "E2 abstract interpreter", "models of rand::{thread_rng, RngCore::fill_bytes, Rng::gen} and sha3 (fv/models.py)",
            "rand::ThreadRng is an OS-seeded CSPRNG (contract of the rand crate)")
    R.assume("no salt value repeats: property of the CSPRNG behind rand::thread_rng(), not decided statically")
    for N in (512, 1024):
        inst = S.find(f"falcon::sign::<{N}>")
        ent, absorbed = [], []

        def obs(ev, **kw):
            if ctx.quiet:
                return
            if ev == "entropy":
                ent.append((kw["frame"].inst.name, kw["what"], kw["rng"], kw["buf"], kw["st"].const(kw["seq"].len) if kw.get("seq") is not None else None))
            elif ev == "absorb":
                absorbed.append(skeleton.labels_of(kw["st"], kw["seq"]))
        ctx.observers.append(obs)
        st = St()
        m = skeleton.labelled_bytes(S, st, "m", 0, 1 << 40, "m")
        sk = S.cell(st, "sk", skeleton.secret_key(S, st, N))
        outs = S.run(inst, [m, sk], st)
        ctx.observers.remove(obs)
        site = f"sign::<{N}>"
        if not outs:
            R.violation("C08-salt", site, "abstract run of sign found no return", key=f"ret|{N}")
            continue
        sig, rst = outs[0]
        salt = sig.f[0] if type(sig) is Ag and sig.f else None
        ok_shape = type(salt) is Sq and rst.const(salt.len) == 40
        R.check(ok_shape, "C08-salt", site, "the salt field of the returned signature is a 40-byte array", f"salt field is {salt}", key=f"shape|{N}")
        if not ok_shape:
            continue
        labs, unl, n = skeleton.labels_of(rst, salt)
        ent_labs = {l for l in labs if isinstance(l, tuple) and l[0] == "entropy"}
        fills = [e for e in ent if e[1] == "fill_bytes" and e[0] == inst.name]
        R.check(len(ent_labs) >= 1 and not unl and labs == ent_labs, "C08-salt", site,
                f"every salt byte in the returned signature is generator output ({sorted(ent_labs)})",
                f"salt bytes carry labels {sorted(map(str, labs))}{' and some bytes are not generator output at all (constant / overwritten / partially filled)' if unl else ''}",
                key=f"origin|{N}", data={"labels": sorted(map(str, labs)), "unlabelled": unl})
        R.check("m" not in labs and "sk" not in labs, "C08-indep", site, "salt bytes do not depend on the message or the secret key",
                f"salt depends on {sorted(l for l in labs if l in ('m', 'sk'))}", key=f"indep|{N}")
        if ent_labs:
            bad_g = [(l[1], l[2]) for l in ent_labs if not (l[1] == "thread_rng" and l[2] is not None and l[2][0] == inst.name)]
            R.check(not bad_g, "C08-rng", site,
                    f"the generator is rand::thread_rng() obtained inside this call of sign ({sorted({str(l[2]) for l in ent_labs})})",
                    f"the salt's generator has origin `{bad_g[0][0] if bad_g else ''}` created at {bad_g[0][1] if bad_g else ''} — not a thread_rng() handle created by this call", key=f"rng|{N}")
        # every one of the 40 positions, not only the summary: with distinguished bytes each must carry a generator label
        per_byte = None
        if salt.head and len(salt.head) == 40:
            per_byte = [bool(rst.taint.get(h.vid)) and all(isinstance(l, tuple) and l[0] == "entropy" for l in rst.taint.get(h.vid)) for h in salt.head.values() if type(h) is I]
        R.check(per_byte is None or (len(per_byte) == 40 and all(per_byte)), "C08-fill", site,
                f"all 40 salt positions are generator output ({len(fills)} fill_bytes call(s) in sign; {'byte by byte' if per_byte else 'one summarised element covering the whole array'})",
                f"salt positions that are not generator output: {[i for i, b in enumerate(per_byte or []) if not b][:8]}", key=f"fill|{N}")
        # (4) hashed string
        good = [a for a in absorbed if ent_labs and ent_labs <= a[0] and "m" in a[0]]
        R.check(len(absorbed) >= 1 and len(good) == len(absorbed), "C08-hash", site, "the absorbed string contains this call's salt and the message",
                f"absorbed strings carry labels {[sorted(map(str, a[0])) for a in absorbed]} (expected the salt's generator label and `m`)", key=f"hash|{N}")
        R.check(all("sk" not in a[0] for a in absorbed), "C08-hash", site + " (key)", "the secret key does not enter the hash", key=f"hashsk|{N}")
    R.analysed["unsupported"] = S.unsupported[:10]
    R.analysed["opaque_callees"] = sorted(ctx.unmodelled)[:30]
    R.floor("sign variants analysed", 2, 2)
