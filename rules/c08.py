"""C08 — every signature carries a fresh 40-byte salt.

Decided on `sign::<N>` (both variants) by abstract interpretation with value labels:
 (1) the salt field of the returned Signature is, byte for byte, what one `fill_bytes` call on the whole
     40-byte array wrote, and nothing wrote into that array afterwards;
 (2) the generator that call draws from is the handle returned by `rand::thread_rng()` inside the same
     call of `sign` (OS-seeded, per call, per thread);
 (3) the salt does not depend on the message or the key;
 (4) the string that is hashed contains that same salt and the message.
Not decided: that a CSPRNG never repeats an output (contract of rand::ThreadRng)."""
from fv.absint import St, Pt, Ag, I, Sq, En, Md
from .common import Session
from . import skeleton

LEVEL = "other"
TECHNIQUE = "abstract interpretation of sign with value labels (origin of the salt array, reaching definition at the return and at the hash)"
EXPLANATION = ("sign::<N> is interpreted abstractly with the heavy numerical callees opaque; every byte produced by a generator carries a label naming the "
               "generator's origin and creation site, message and key bytes carry their own labels; the labels found in the returned salt and in the "
               "absorbed string decide the clauses. The statistical statement (no repetition) rests on ThreadRng's contract.")


def run(R):
    S = skeleton.session()
    ctx = S.ctx
    R.trust("rustc MIR (nightly)", "E0 fact extractor", "E2 abstract interpreter", "models of rand::{thread_rng, RngCore::fill_bytes, Rng::gen} and sha3 (fv/models.py)",
            "rand::ThreadRng is an OS-seeded CSPRNG (contract of the rand crate)")
    R.assume("no salt value repeats: property of the CSPRNG behind rand::thread_rng(), not decided statically")
    for N in (512, 1024):
        inst = S.find(f"falcon::sign::<{N}>")
        ent, absorbed = [], []

        def obs(ev, **kw):
            if ctx.quiet:
                return
            if ev == "entropy":
                ent.append((kw["frame"].inst.name, kw["what"], kw["rng"], kw["buf"], kw["st"].const(kw["seq"].len) if kw.get("seq") is not None else None))
            elif ev == "absorb":
                absorbed.append(skeleton.labels_of(kw["st"], kw["seq"]))
        ctx.observers.append(obs)
        st = St()
        m = skeleton.labelled_bytes(S, st, "m", 0, 1 << 40, "m")
        sk = S.cell(st, "sk", skeleton.secret_key(S, st, N))
        outs = S.run(inst, [m, sk], st)
        ctx.observers.remove(obs)
        site = f"sign::<{N}>"
        if not outs:
            R.violation("C08-salt", site, "abstract run of sign found no return", key=f"ret|{N}")
            continue
        sig, rst = outs[0]
        salt = sig.f[0] if type(sig) is Ag and sig.f else None
        ok_shape = type(salt) is Sq and rst.const(salt.len) == 40
        R.check(ok_shape, "C08-salt", site, "the salt field of the returned signature is a 40-byte array", f"salt field is {salt}", key=f"shape|{N}")
        if not ok_shape:
            continue
        labs, unl, n = skeleton.labels_of(rst, salt)
        ent_labs = {l for l in labs if isinstance(l, tuple) and l[0] == "entropy"}
        fills = [e for e in ent if e[1] == "fill_bytes" and e[0] == inst.name]
        R.check(len(ent_labs) == 1 and not unl and labs == ent_labs, "C08-salt", site,
                f"every salt byte in the returned signature is output of one generator draw ({sorted(ent_labs)})",
                f"salt bytes carry labels {sorted(map(str, labs))}{' and some bytes are not generator output at all (constant / overwritten / partially filled)' if unl else ''}",
                key=f"origin|{N}", data={"labels": sorted(map(str, labs)), "unlabelled": unl})
        R.check("m" not in labs and "sk" not in labs, "C08-indep", site, "salt bytes do not depend on the message or the secret key",
                f"salt depends on {sorted(l for l in labs if l in ('m', 'sk'))}", key=f"indep|{N}")
        if ent_labs:
            (_, origin, gsite, _draw), = list(ent_labs)[:1]
            R.check(origin == "thread_rng" and gsite is not None and gsite[0] == inst.name, "C08-rng", site,
                    f"the generator is rand::thread_rng() obtained inside this call of sign ({gsite})",
                    f"the salt's generator has origin `{origin}` created at {gsite} — not a thread_rng() handle created by this call", key=f"rng|{N}")
        whole = [e for e in fills if e[4] == 40 and type(e[3]) is Pt and not e[3].proj]
        R.check(len(whole) >= 1, "C08-fill", site, f"fill_bytes is applied to a whole 40-byte array ({len(fills)} fill_bytes call(s) in sign)",
                f"no fill_bytes call on a whole 40-byte array (calls: {[(e[1], e[4]) for e in fills]})", key=f"fill|{N}")
        # (4) hashed string
        good = [a for a in absorbed if ent_labs and ent_labs <= a[0] and "m" in a[0]]
        R.check(len(absorbed) >= 1 and len(good) == len(absorbed), "C08-hash", site, "the absorbed string contains this call's salt and the message",
                f"absorbed strings carry labels {[sorted(map(str, a[0])) for a in absorbed]} (expected the salt's generator label and `m`)", key=f"hash|{N}")
        R.check(all("sk" not in a[0] for a in absorbed), "C08-hash", site + " (key)", "the secret key does not enter the hash", key=f"hashsk|{N}")
    R.analysed["unsupported"] = S.unsupported[:10]
    R.analysed["opaque_callees"] = sorted(ctx.unmodelled)[:30]
    R.floor("sign variants analysed", 2, 2)
