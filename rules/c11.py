"""C11 — NTT tables and wiring.

Decided: (1) every entry of the two production twiddle tables (CTFE values in the compiled crate)
is the bit-reversed power of one primitive 2048-th root of unity / of its inverse, canonical;
(2) the n^-1 constant selected for every supported length n satisfies n * ninv = 1 (mod q), and
each transform entry point hands the right table to the generic butterfly (forward table to
fft/merge, inverse table to ifft/split).
Not decided: that the generic butterflies compute the negacyclic transform for all inputs.
"""
from fv.absint import St, Pt, Ag, I
from fv.facts import CheckerError
from fv.oracle import Q, bitrev
from .common import Session, POLY_FELT, FELT, CF, u32s, record_obligations

LEVEL = "other"
TECHNIQUE = "exhaustive arithmetic on compile-time-evaluated tables + abstract interpretation of the transform entry points for every supported length"
EXPLANATION = ("All 1024+1024 table entries and the n^-1 constant reaching the inverse butterfly for each of the 11 supported lengths are "
               "read from the compiler's evaluated constants / abstract argument values at the call sites and checked by modular arithmetic. "
               "The algebra of the generic butterflies over all inputs is NOT decided (DESIGN.md C11-4).")

FFT_IMPL = f"<{POLY_FELT} as falcon_rust::fast_fft::FastFft>"
LENGTHS = [1 << k for k in range(0, 11)]


def table_of(S, ptr):
    """(alloc id, list of u32) for a pointer argument to a constant Felt table"""
    if type(ptr) is not Pt or ptr.key is None or ptr.key[0] != "alloc":
        return None
    aid = ptr.key[1]
    b = S.prog.alloc_bytes(aid)
    if b is None:
        return None
    return aid, u32s(b)


def run(R):
    S = Session()
    prog, ctx = S.prog, S.ctx
    R.trust("rustc CTFE + MIR (nightly)", "E0 fact extractor", "E2 abstract interpreter and model table")
    calls = []

    def obs(ev, **kw):
        if ev == "call" and ctx.quiet == 0 and kw["callee"].name.startswith(f"<{FELT} as {CF}>::"):
            calls.append((kw["frame"].inst.name, kw["callee"].name.split("::")[-1], kw["args"], kw["st"].copy()))
    ctx.observers.append(obs)
    ctx.no_inline = lambda inst: inst.name.startswith(f"<{FELT} as {CF}>::")

    def poly(st, n, tag):
        coeffs = S.seq(st, S.felt(st), n)
        return S.cell(st, tag, Ag((coeffs,)), mut=True)

    tables = {}
    ninv = {}
    # ---- ifft_inplace for every length: which table and which n^-1 reach the butterfly
    inst = S.find(f"{FFT_IMPL}::ifft_inplace")
    for n in LENGTHS:
        st = St()
        del calls[:]
        S.run(inst, [poly(st, n, "p")], st)
        got = [c for c in calls if c[1] == "ifft"]
        if len(got) != 1:
            R.violation("C11-wiring", f"ifft_inplace n={n}", f"expected exactly one call to the inverse butterfly, saw {len(got)}", key=f"ifft-call|{n}")
            continue
        _, _, args, cst = got[0]
        t = table_of(S, args[1])
        if t is None:
            R.violation("C11-wiring", f"ifft_inplace n={n}", "table argument of the inverse butterfly is not a constant table", key=f"ifft-table|{n}")
            continue
        tables.setdefault("inverse", {})[tuple(t[1])] = t[0]
        nv = args[2]
        val = cst.const(nv.f[0]) if type(nv) is Ag and type(nv.f[0]) is I else None
        ninv[n] = val
        R.check(val is not None and 0 <= val < Q and (val * n) % Q == 1, "C11-ninv", f"ifft_inplace n={n}",
                f"n^-1 constant reaching the inverse butterfly is {val}: {n}*{val} mod q = {(val * n) % Q if val is not None else '?'}",
                key=f"ninv|{n}", data={"n": n, "ninv": val})
    R.floor("lengths analysed for n^-1", len(ninv), 11)
    # ---- the other three entry points (n = 512, 1024)
    wiring = {"fft_inplace": ("fft", "forward", 1), "split_fft": ("split_fft", "inverse", 1), "merge_fft": ("merge_fft", "forward", 2)}
    for entry, (callee, role, argi) in wiring.items():
        inst = S.find(f"{FFT_IMPL}::{entry}")
        for n in (512, 1024):
            st = St()
            del calls[:]
            if entry == "merge_fft":
                args = [poly(st, n // 2, "a"), poly(st, n // 2, "b")]
            else:
                args = [poly(st, n, "p")]
            S.run(inst, args, st)
            got = [c for c in calls if c[1] == callee]
            if len(got) != 1:
                R.violation("C11-wiring", f"{entry} n={n}", f"expected one call to {callee}, saw {len(got)}", key=f"{entry}-call|{n}")
                continue
            t = table_of(S, got[0][2][argi])
            if t is None:
                R.violation("C11-wiring", f"{entry} n={n}", "table argument is not a constant table", key=f"{entry}-table|{n}")
                continue
            tables.setdefault(role, {})[tuple(t[1])] = t[0]
            R.ok("C11-wiring", f"{entry} n={n}", f"passes constant table alloc#{t[0]} ({len(t[1])} entries) as the {role} table", key=f"{entry}|{n}|{role}")
    # ---- table contents
    for role in ("forward", "inverse"):
        ts = tables.get(role, {})
        if len(ts) != 1:
            R.violation("C11-table", role, f"expected one {role} table content shared by all entry points, found {len(ts)}", key=f"table-count|{role}")
    if len(tables.get("forward", {})) == 1 and len(tables.get("inverse", {})) == 1:
        (fwd, fa), = tables["forward"].items()
        (inv, ia), = tables["inverse"].items()
        R.check(fwd != inv, "C11-table", "tables", "forward and inverse tables are distinct constants", key="distinct")
        R.analysed["forward_table_alloc"] = fa
        R.analysed["inverse_table_alloc"] = ia
        if len(fwd) != 1024 or len(inv) != 1024:
            R.violation("C11-table", "tables", f"table lengths {len(fwd)}, {len(inv)} (expected 1024)", key="len")
        else:
            psi = fwd[512]           # brv10(512) = 1
            R.check(pow(psi, 1024, Q) == Q - 1, "C11-table", "forward[512]", f"psi = {psi}: psi^1024 = -1 (mod q), i.e. a primitive 2048-th root of unity", key="psi")
            psi_inv = pow(psi, Q - 2, Q)
            bad_f = [i for i in range(1024) if fwd[i] != pow(psi, bitrev(i, 10), Q)]
            bad_i = [i for i in range(1024) if inv[i] != pow(psi_inv, bitrev(i, 10), Q)]
            R.analysed["entries_checked"] = 2048
            for name, bad, tab in (("forward", bad_f, fwd), ("inverse", bad_i, inv)):
                if bad:
                    i = bad[0]
                    R.violation("C11-table", f"{name}[{i}]", f"{len(bad)} entries differ from psi^(+-bitrev(i)); first: index {i} holds {tab[i]}",
                                key=f"{name}-entries", data={"bad_indices": bad[:20]})
                else:
                    R.ok("C11-table", name, f"all 1024 entries equal psi^({'' if name == 'forward' else '-'}bitrev10(i)) mod q with psi = {psi}; all canonical (< q)", key=f"{name}-entries")
            R.floor("table entries checked", 2048 - 0, 2048)
    obls = S.obligations_since(0)
    R.analysed["e2_obligations_seen"] = len(obls)
    R.analysed["models_used"] = sorted(ctx.models_used)
    R.analysed["unsupported"] = S.unsupported[:10]
