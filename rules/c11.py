"""C11 — NTT tables and wiring.

Decided: (1) every entry of the two production twiddle tables (CTFE values in the compiled crate)
is the bit-reversed power of one primitive 2048-th root of unity / of its inverse, canonical;
(2) the n^-1 constant selected for every supported length n satisfies n * ninv = 1 (mod q), and
each transform entry point hands the right table to the generic butterfly (forward table to
fft/merge, inverse table to ifft/split).
(3) algebra (added while building): the transform entry points are interpreted on a vector of n SYMBOLIC field
elements, every element carrying its exact residue-class polynomial in the input symbols (Felt + - * through the
contracts proved under C12, table entries as their constant values). Decided as exact polynomial identities, i.e.
for ALL inputs: fft(a)[i] = a(r_i) with r_i^n = -1 and the r_i pairwise distinct (evaluation at the n roots of
X^n + 1, in whatever order the code uses); ifft(fft(a)) = a; and for the small lengths directly
ifft(fft(a) .* fft(b)) = a * b mod (X^n + 1). The first two give the product statement for every length by the
Chinese remainder theorem (evaluation at the roots is a ring isomorphism and ifft is its inverse).
quick: n = 1 .. 256 (product up to 16); thorough: n = 1 .. 1024 (product up to 64).
"""
from fv.absint import St, Pt, Ag, I
from fv.facts import CheckerError
from fv.oracle import Q, bitrev
from .common import Session, POLY_FELT, FELT, CF, u32s, record_obligations

LEVEL = "other"
TECHNIQUE = "exhaustive arithmetic on compile-time-evaluated tables + abstract interpretation of the transform entry points for every supported length"
EXPLANATION = ("All 1024+1024 table entries and the n^-1 constant reaching the inverse butterfly for each of the 11 supported lengths are "
               "read from the compiler's evaluated constants / abstract argument values at the call sites and checked by modular arithmetic. "
               "The algebra of the generic butterflies over all inputs is NOT decided (DESIGN.md C11-4).")

FFT_IMPL = f"<{POLY_FELT} as falcon_rust::fast_fft::FastFft>"
LENGTHS = [1 << k for k in range(0, 11)]


def table_of(S, ptr):
    """(alloc id, list of u32) for a pointer argument to a constant Felt table"""
    if type(ptr) is not Pt or ptr.key is None or ptr.key[0] != "alloc":
        return None
    aid = ptr.key[1]
    b = S.prog.alloc_bytes(aid)
    if b is None:
        return None
    return aid, u32s(b)


def run(R):
    S = Session()
    prog, ctx = S.prog, S.ctx
    R.trust("rustc CTFE + MIR (nightly)", "E0 fact extractor", "E2 abstract interpreter and model table")
    calls = []

    def obs(ev, **kw):
        if ev == "call" and ctx.quiet == 0 and kw["callee"].name.startswith(f"<{FELT} as {CF}>::"):
            calls.append((kw["frame"].inst.name, kw["callee"].name.split("::")[-1], kw["args"], kw["st"].copy()))
    ctx.observers.append(obs)
    ctx.no_inline = lambda inst: inst.name.startswith(f"<{FELT} as {CF}>::")

    def poly(st, n, tag):
        coeffs = S.seq(st, S.felt(st), n)
        return S.cell(st, tag, Ag((coeffs,)), mut=True)

    tables = {}
    ninv = {}
    # ---- ifft_inplace for every length: which table and which n^-1 reach the butterfly
    inst = S.find(f"{FFT_IMPL}::ifft_inplace")
    for n in LENGTHS:
        st = St()
        del calls[:]
        S.run(inst, [poly(st, n, "p")], st)
        got = [c for c in calls if c[1] == "ifft"]
        if len(got) != 1:
            R.violation("C11-wiring", f"ifft_inplace n={n}", f"expected exactly one call to the inverse butterfly, saw {len(got)}", key=f"ifft-call|{n}")
            continue
        _, _, args, cst = got[0]
        t = table_of(S, args[1])
        if t is None:
            R.violation("C11-wiring", f"ifft_inplace n={n}", "table argument of the inverse butterfly is not a constant table", key=f"ifft-table|{n}")
            continue
        tables.setdefault("inverse", {})[tuple(t[1])] = t[0]
        nv = args[2]
        val = cst.const(nv.f[0]) if type(nv) is Ag and type(nv.f[0]) is I else None
        ninv[n] = val
        R.check(val is not None and 0 <= val < Q and (val * n) % Q == 1, "C11-ninv", f"ifft_inplace n={n}",
                f"n^-1 constant reaching the inverse butterfly is {val}: {n}*{val} mod q = {(val * n) % Q if val is not None else '?'}",
                key=f"ninv|{n}", data={"n": n, "ninv": val})
    R.floor("lengths analysed for n^-1", len(ninv), 11)
    # ---- the other three entry points (n = 512, 1024)
    wiring = {"fft_inplace": ("fft", "forward", 1), "split_fft": ("split_fft", "inverse", 1), "merge_fft": ("merge_fft", "forward", 2)}
    for entry, (callee, role, argi) in wiring.items():
        inst = S.find(f"{FFT_IMPL}::{entry}")
        for n in (512, 1024):
            st = St()
            del calls[:]
            if entry == "merge_fft":
                args = [poly(st, n // 2, "a"), poly(st, n // 2, "b")]
            else:
                args = [poly(st, n, "p")]
            S.run(inst, args, st)
            got = [c for c in calls if c[1] == callee]
            if len(got) != 1:
                R.violation("C11-wiring", f"{entry} n={n}", f"expected one call to {callee}, saw {len(got)}", key=f"{entry}-call|{n}")
                continue
            t = table_of(S, got[0][2][argi])
            if t is None:
                R.violation("C11-wiring", f"{entry} n={n}", "table argument is not a constant table", key=f"{entry}-table|{n}")
                continue
            tables.setdefault(role, {})[tuple(t[1])] = t[0]
            R.ok("C11-wiring", f"{entry} n={n}", f"passes constant table alloc#{t[0]} ({len(t[1])} entries) as the {role} table", key=f"{entry}|{n}|{role}")
    # ---- table contents
    for role in ("forward", "inverse"):
        ts = tables.get(role, {})
        if len(ts) != 1:
            R.violation("C11-table", role, f"expected one {role} table content shared by all entry points, found {len(ts)}", key=f"table-count|{role}")
    if len(tables.get("forward", {})) == 1 and len(tables.get("inverse", {})) == 1:
        (fwd, fa), = tables["forward"].items()
        (inv, ia), = tables["inverse"].items()
        R.check(fwd != inv, "C11-table", "tables", "forward and inverse tables are distinct constants", key="distinct")
        R.analysed["forward_table_alloc"] = fa
        R.analysed["inverse_table_alloc"] = ia
        if len(fwd) != 1024 or len(inv) != 1024:
            R.violation("C11-table", "tables", f"table lengths {len(fwd)}, {len(inv)} (expected 1024)", key="len")
        else:
            psi = fwd[512]           # brv10(512) = 1
            R.check(pow(psi, 1024, Q) == Q - 1, "C11-table", "forward[512]", f"psi = {psi}: psi^1024 = -1 (mod q), i.e. a primitive 2048-th root of unity", key="psi")
            psi_inv = pow(psi, Q - 2, Q)
            bad_f = [i for i in range(1024) if fwd[i] != pow(psi, bitrev(i, 10), Q)]
            bad_i = [i for i in range(1024) if inv[i] != pow(psi_inv, bitrev(i, 10), Q)]
            R.analysed["entries_checked"] = 2048
            for name, bad, tab in (("forward", bad_f, fwd), ("inverse", bad_i, inv)):
                if bad:
                    i = bad[0]
                    R.violation("C11-table", f"{name}[{i}]", f"{len(bad)} entries differ from psi^(+-bitrev(i)); first: index {i} holds {tab[i]}",
                                key=f"{name}-entries", data={"bad_indices": bad[:20]})
                else:
                    R.ok("C11-table", name, f"all 1024 entries equal psi^({'' if name == 'forward' else '-'}bitrev10(i)) mod q with psi = {psi}; all canonical (< q)", key=f"{name}-entries")
            R.floor("table entries checked", 2048 - 0, 2048)
    clause_algebra(R)
    obls = S.obligations_since(0)
    R.analysed["e2_obligations_seen"] = len(obls)
    R.analysed["models_used"] = sorted(ctx.models_used)
    R.analysed["unsupported"] = S.unsupported[:10]


def clause_algebra(R):
    import time
    from fv.absint import Sq, p_sym, p_add, p_mul, p_const
    from . import symalg
    quick = R.tier != "thorough"
    lengths = list(LENGTHS)          # all supported lengths in both tiers (n = 1024 takes about 25 s)
    prod_max = 16 if quick else 64
    S = Session()
    ctx = S.ctx
    ctx.path_mode_fns = lambda inst: True
    ctx.path_budget = 200000000
    ctx.hooks["may_panic"] = lambda inst: False
    ctx.hooks["exact_collect_max"] = 1100
    ctx.hooks["keep_heads_max"] = 1100
    symalg.install(S, symalg.felt_contract_models(S))
    u32, usz = S.ty("u32"), ctx.usize_ty()
    fft = S.find(f"{FFT_IMPL}::fft")
    ifft = S.find(f"{FFT_IMPL}::ifft")
    hmul = S.find(f"polynomial::Polynomial::<{FELT}>::hadamard_mul")

    def sym_poly(st, nm, n):
        hd = {}
        for j in range(n):
            x = ctx.mk_int(st, 0, Q - 1, u32)
            st.res[x.vid] = p_sym(f"{nm}{j}")
            hd[j] = Ag((x,))
        return Ag((Sq(Ag((ctx.mk_int(st, 0, Q - 1, u32),)), ctx.const_int(st, n, usz), hd),))

    def forms(st, v, n):
        c = v.f[0]
        if type(c) is not Sq or not c.head or len(c.head) != n or st.const(c.len) != n:
            return None
        return [st.res.get(c.head[i].f[0].vid) for i in range(n)]
    times = {}
    for n in lengths:
        t0 = time.time()
        st = St()
        st.res[("dummy",)] = {}
        ctx.res_syms = {}
        a = S.cell(st, "a", sym_poly(st, "a", n))
        outs = S.run(fft, [a], st)
        site = f"fft, n = {n}"
        if len(outs) != 1:
            R.violation("C11-algebra", site, f"{len(outs)} outcomes from the symbolic run", key=f"alg|fft|{n}")
            continue
        fa, s2 = outs[0]
        fm = forms(s2, fa, n)
        ok, why = fm is not None and all(f is not None for f in fm), "no exact residue forms for the outputs"
        roots = []
        if ok:
            for i, f in enumerate(fm):
                co = {}
                for mono, c in f.items():
                    if len(mono) != 1 or mono[0][1] != 1 or not mono[0][0].startswith("a"):
                        ok, why = False, f"output {i} is not a linear form in the inputs"
                        break
                    co[int(mono[0][0][1:])] = c
                if not ok:
                    break
                r = co.get(1, 0) if n > 1 else None
                if n == 1:
                    if co != {0: 1}:
                        ok, why = False, f"length 1: output is {f}"
                    continue
                if pow(r, n, Q) != Q - 1 or any(co.get(j, 0) != pow(r, j, Q) for j in range(n)):
                    ok, why = False, f"output {i} is not a(r) for a root r of X^{n}+1 (coefficient of a1 is {r})"
                    break
                roots.append(r)
            if ok and n > 1 and len(set(roots)) != n:
                ok, why = False, "two outputs evaluate at the same root"
        R.check(ok, "C11-algebra", site, f"for all inputs: output i = a(r_i), r_i^{n} = -1, the {n} roots pairwise distinct (exact residue identities)", why, key=f"alg|fft|{n}")
        # inverse of forward
        S.cell(s2, "fa", fa)
        outs2 = S.run(ifft, [Pt(("h", "fa"))], s2)
        okb = len(outs2) == 1
        if okb:
            ra, s3 = outs2[0]
            fb = forms(s3, ra, n)
            okb = fb is not None and all(fb[j] == p_sym(f"a{j}") for j in range(n))
        R.check(okb, "C11-algebra", f"ifft(fft(a)), n = {n}", "equals a for all inputs (exact)", "the composition is not the identity", key=f"alg|inv|{n}")
        # product
        if n <= prod_max and ok:
            b = S.cell(s2, "b", sym_poly(s2, "b", n))
            o3 = S.run(fft, [b], s2)
            okp = len(o3) == 1
            if okp:
                fbv, s4 = o3[0]
                S.cell(s4, "fb", fbv)
                o4 = S.run(hmul, [Pt(("h", "fa")), Pt(("h", "fb"))], s4)
                okp = len(o4) == 1
            if okp:
                pr, s5 = o4[0]
                S.cell(s5, "pr", pr)
                o5 = S.run(ifft, [Pt(("h", "pr"))], s5)
                okp = len(o5) == 1
            if okp:
                res, s6 = o5[0]
                fr_ = forms(s6, res, n)
                want = []
                for k in range(n):
                    acc = {}
                    for i in range(n):
                        for j in range(n):
                            if (i + j) % n == k:
                                acc = p_add(acc, p_mul(p_sym(f"a{i}"), p_sym(f"b{j}")), 1 if i + j < n else -1)
                    want.append(acc)
                okp = fr_ is not None and fr_ == want
            R.check(okp, "C11-algebra", f"ifft(fft(a) .* fft(b)), n = {n}", "equals the negacyclic product a*b mod (X^n+1) for all inputs (exact)", "differs from the negacyclic product", key=f"alg|prod|{n}")
        times[n] = round(time.time() - t0, 2)
    R.analysed["algebra_lengths"] = lengths
    R.analysed["algebra_seconds"] = times
    R.analysed.setdefault("unsupported", []).extend(S.unsupported[:5])
    R.floor("lengths with exact transform algebra", len(times), len(lengths))
