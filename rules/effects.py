"""K-EFF — whole-program effect analysis on the monomorphic call graph: classify every bodiless leaf a
cone can reach; a cone is *deterministic* when no leaf can observe anything but its arguments."""
import re

ALLOC = re.compile(r"^(alloc::alloc::__rust_|__rust_|__rg_|alloc::alloc::handle_alloc_error|std::alloc::handle_alloc_error|alloc::raw_vec::(handle_error|capacity_overflow)|std::alloc::rust_oom|std::alloc::__default_lib_allocator)")
PANIC = re.compile(r"(^core::panicking::|^std::panicking::|^std::rt::panic|^std::rt::begin_panic|unwrap_failed$|expect_failed$|^core::slice::index::slice_|len_mismatch_fail$|^core::str::slice_error_fail|panic_for_nonpositive_argument$|^core::num::imp::.*panic|^std::process::abort$|^core::cell::panic_already|^core::option::|^core::result::unwrap_failed)")
FMT = re.compile(r"(^core::fmt::|^std::fmt::|^alloc::fmt::|^<.* as std::fmt::(Display|Debug|LowerHex|UpperHex|Write)>::|^std::fmt::format::format_inner$|^alloc::string::|^alloc::str::|^core::str::|^core::char::|^core::unicode::|^core::num::(flt2dec|dec2flt|bignum|fmt))")
ARCH = re.compile(r"^core::core_arch::|^std::arch::|^core::arch::")
CPU = re.compile(r"^std_detect::detect::")
OS = re.compile(r"(^libc::|^getrandom::|^std::sys::|^std::sys_common::|^std::time::|^std::env::|^std::thread::|^std::fs::|^std::net::|^std::io::|^std::os::|^std::process::(?!abort)|RandomState|^std::hash::random|^std::collections::hash|^std::sync::|^std::backtrace|^std::path::|^std::ffi::os_str)")
ENTROPY_NAMES = re.compile(r"(thread_rng|ThreadRng|OsRng|from_entropy|getrandom|ReseedingRng|rand::rngs::adapter|rand::rngs::thread)")


def classify(inst):
    n = inst.name
    if inst.kind == "intrinsic":
        i = inst.intrinsic or ""
        if i.startswith("atomic_"):
            return "atomic"
        return "intrinsic"
    if inst.kind == "virtual":
        return "virtual"
    if inst.crate == "libc" or OS.search(n):
        return "os"
    if ALLOC.search(n):
        return "alloc"
    if PANIC.search(n):
        return "panic"
    if ARCH.search(n):
        return "arch"
    if CPU.search(n):
        return "cpu-detect"
    if FMT.search(n):
        return "fmt"
    if inst.foreign:
        return "foreign"
    last = n.split("::")[-1]
    if last[:1].isupper() and "(" not in last:
        return "ctor"           # tuple-struct / enum-variant constructor function
    return "unknown"


DETERMINISTIC_OK = {"intrinsic", "alloc", "panic", "arch", "cpu-detect", "fmt", "atomic", "virtual", "ctor"}
STATIC_OK = re.compile(r"^(bit_vec::|num_bigint::|std_detect::|core::|alloc::|std::panicking|std::alloc|std::rt|std::io::stdio|std::sys::|ppv_lite86::|keccak::|cpufeatures::|sha3::|<|memchr::)")


def cone(prog, roots):
    seen = prog.reach(roots)
    leaves = [prog.inst[i] for i in seen if not prog.inst[i].has_body]
    return seen, leaves


def statics_of(prog, seen):
    out = {}
    for i in seen:
        for e in prog.inst[i].edges:
            if e["k"] == "static":
                out.setdefault(e["name"], prog.inst[i].name)
            elif e["k"] == "tls":
                out.setdefault("thread_local " + e["item"], prog.inst[i].name)
    return out


def cone_is_deterministic(R, prog, roots, rule, label, floor_instances=20):
    """record one obligation per leaf class; violation with a call path for every leaf that can
    observe the environment (OS, entropy, time, ...), for unclassified leaves, and for statics that
    are not in the allow-list."""
    seen, leaves = cone(prog, roots)
    by = {}
    for l in leaves:
        by.setdefault(classify(l), []).append(l)
    for cls, ls in sorted(by.items()):
        if cls in DETERMINISTIC_OK:
            R.ok(rule, f"{label}: leaves of class {cls}", f"{len(ls)} leaf instance(s), e.g. {ls[0].name[:80]}", key=f"{rule}|{label}|{cls}")
        else:
            for l in ls[:6]:
                path = prog.path_to(seen, l.id)
                R.violation(rule, f"{label} -> {l.name}", f"cone reaches a leaf of class `{cls}`: {l.name}; path: {' > '.join(p[:70] for p in path[:12])}",
                            key=f"{rule}|{label}|{cls}|{l.name}", data={"path": path})
    ent = [prog.inst[i] for i in seen if ENTROPY_NAMES.search(prog.inst[i].name)]
    if ent:
        l = ent[0]
        path = prog.path_to(seen, l.id)
        R.violation(rule, f"{label} -> {l.name}", f"cone reaches an OS-entropy source: {l.name}; path: {' > '.join(p[:70] for p in path[:12])}",
                    key=f"{rule}|{label}|entropy|{l.name}", data={"path": path})
    else:
        R.ok(rule, f"{label}: entropy sources", f"none of the {len(seen)} instances in the cone is an OS-seeded generator", key=f"{rule}|{label}|entropy")
    st = statics_of(prog, seen)
    bad = {n: w for n, w in st.items() if not STATIC_OK.search(n.replace("thread_local ", ""))}
    for n, w in sorted(bad.items()):
        R.violation(rule, f"{label}: static {n}", f"cone touches static/thread-local `{n}` (from {w}) — state that can carry information between calls",
                    key=f"{rule}|{label}|static|{n}")
    if not bad:
        R.ok(rule, f"{label}: statics", f"{len(st)} static(s) touched, all in the dependency allow-list: {sorted(st)[:6]}", key=f"{rule}|{label}|statics")
    # inline asm / indirect calls are opaque
    opaque = []
    for i in seen:
        for e in prog.inst[i].edges:
            if e["k"] in ("asm",):
                opaque.append((prog.inst[i].name, e["k"]))
    for (n, k) in opaque[:5]:
        if not ARCH.search(n) and not n.startswith("std_detect::") and not n.startswith("core::hint") and "black_box" not in n and not n.startswith("cpufeatures::") and "cpuid" not in n and n != "num_bigint::biguint::division::div_wide":
            R.violation(rule, f"{label}: {n}", f"inline assembly in {n}", key=f"{rule}|{label}|asm|{n}")
    R.floor(f"{label}: instances in cone", len(seen), floor_instances)
    R.analysed.setdefault("cones", {})[label] = {"instances": len(seen), "leaves": len(leaves), "classes": {k: len(v) for k, v in by.items()}}
    return seen, by
