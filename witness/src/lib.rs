//! Type-level witnesses (E5).  Every doctest is `no_run` (compiled, never executed) or
//! `compile_fail,E0xxx` (must fail to compile with that error; only honoured on nightly).
//! Each compile-fail witness has a compiling twin that differs only in the offending line.

/// W-SENDSYNC: keys and signatures can be shared and sent between threads (so `&SecretKey` may be used by
/// any number of signing threads; with no `unsafe` in the crate this is proved by the type checker).
/// ```no_run
/// fn assert_send_sync<T: Send + Sync>() {}
/// assert_send_sync::<falcon_rust::falcon512::SecretKey>();
/// assert_send_sync::<falcon_rust::falcon1024::SecretKey>();
/// assert_send_sync::<falcon_rust::falcon512::PublicKey>();
/// assert_send_sync::<falcon_rust::falcon1024::PublicKey>();
/// assert_send_sync::<falcon_rust::falcon512::Signature>();
/// assert_send_sync::<falcon_rust::falcon1024::Signature>();
/// ```
pub struct SendSync;

/// W-SENDSYNC-TWIN: the same assertion fails for a type that is not Send (rand's ThreadRng): the
/// witness above discriminates, and the signer's generator handle cannot be shared between threads.
/// ```compile_fail,E0277
/// fn assert_send_sync<T: Send + Sync>() {}
/// assert_send_sync::<rand::rngs::ThreadRng>();
/// ```
pub struct SendSyncTwin;

/// W-SIGN-SHARED: `sign` needs only a shared reference to the key, and `verify` shared references to all
/// its arguments (no `&mut`, no ownership): concurrent callers cannot invalidate each other's borrow.
/// ```no_run
/// let _s5: fn(&[u8], &falcon_rust::falcon512::SecretKey) -> falcon_rust::falcon512::Signature = falcon_rust::falcon512::sign;
/// let _s10: fn(&[u8], &falcon_rust::falcon1024::SecretKey) -> falcon_rust::falcon1024::Signature = falcon_rust::falcon1024::sign;
/// let _v5: fn(&[u8], &falcon_rust::falcon512::Signature, &falcon_rust::falcon512::PublicKey) -> bool = falcon_rust::falcon512::verify;
/// let _v10: fn(&[u8], &falcon_rust::falcon1024::Signature, &falcon_rust::falcon1024::PublicKey) -> bool = falcon_rust::falcon1024::verify;
/// let _k5: fn([u8; 32]) -> (falcon_rust::falcon512::SecretKey, falcon_rust::falcon512::PublicKey) = falcon_rust::falcon512::keygen;
/// let _k10: fn([u8; 32]) -> (falcon_rust::falcon1024::SecretKey, falcon_rust::falcon1024::PublicKey) = falcon_rust::falcon1024::keygen;
/// ```
pub struct SignShared;

/// W-VARIANT: a Falcon-512 signature is not accepted where a Falcon-1024 signature is expected.
/// ```compile_fail,E0308
/// fn take(_m: &[u8], sig: &falcon_rust::falcon512::Signature, pk: &falcon_rust::falcon1024::PublicKey) -> bool {
///     falcon_rust::falcon1024::verify(_m, sig, pk)
/// }
/// ```
pub struct Variant;

/// W-VARIANT-TWIN: the same call with the matching signature type compiles.
/// ```no_run
/// fn take(_m: &[u8], sig: &falcon_rust::falcon1024::Signature, pk: &falcon_rust::falcon1024::PublicKey) -> bool {
///     falcon_rust::falcon1024::verify(_m, sig, pk)
/// }
/// ```
pub struct VariantTwin;

/// W-KEYVARIANT: a Falcon-512 public key cannot verify with the Falcon-1024 entry point.
/// ```compile_fail,E0308
/// fn take(_m: &[u8], sig: &falcon_rust::falcon1024::Signature, pk: &falcon_rust::falcon512::PublicKey) -> bool {
///     falcon_rust::falcon1024::verify(_m, sig, pk)
/// }
/// ```
pub struct KeyVariant;

/// W-PRIVATE: the generic scheme module is not reachable from outside the crate, so no degree other than
/// 512 / 1024 can be instantiated by a user.
/// ```compile_fail,E0603
/// let _ = falcon_rust::falcon::keygen::<256>;
/// ```
pub struct PrivateModule;

/// W-PRIVATE-TWIN: the public wrappers are reachable.
/// ```no_run
/// let _ = falcon_rust::falcon512::keygen;
/// ```
pub struct PrivateModuleTwin;
